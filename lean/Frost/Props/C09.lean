/-
  C09 — No delivery history of keygen messages lets honest parties silently diverge.

  The steps are characterised for *arbitrary* contents of every sender slot, which
  subsumes every delivery history (any contribution from any concurrent run, or
  nothing, in any slot).
-/
import Frost.Proofs.Dkg3
import Frost.Model.Refresh
import Frost.Proofs.Honest

set_option linter.unusedSectionVars false

namespace Frost.C09
open Frost Frost.SignSession

variable {F E : Type} [Field F] [DecidableEq F] [AddCommGroup E] [Module F E] [DecidableEq E]

/-- **A round-two share is accepted only if it belongs to the round-one contribution filed
    for the same sender and was addressed to this recipient**: the loop of `part3` succeeds
    iff every value `v` in sender `ℓ`'s slot satisfies `v•G = Σ_k me^k • C_{ℓ,k}` for the
    commitment `C_ℓ` filed for `ℓ` — i.e. iff `v` is (a scalar with the same image as) the
    filed polynomial's value at `me`.  A share for another addressee `i'`, or from another
    run, passes only on the coincidence `f'(i') • G = f(me) • G`. -/
theorem round2_accept_iff (S : Suite F E) (me : F) (r1c : List (F × List E)) (culprit : Bool)
    (r2 : List (F × F)) (acc sum : F) :
    part3Loop S me r1c culprit r2 acc = .ok sum ↔
      (sum = acc + (r2.map (·.2)).sum ∧
       ∀ lv ∈ r2, ∃ C, SMap.get? r1c lv.1 = some C ∧ C ≠ [] ∧ lv.2 • S.G = vssR C me) :=
  part3Loop_ok_iff S me r1c culprit r2 acc sum

/-- **The distributed refresh applies the same rule**: `refresh_dkg_shares` runs the same loop
    over the round-one commitments with the identity re-inserted as constant term, so whenever
    it succeeds every value `v` in sender `ℓ`'s slot satisfies `v•G = Σ_k me^k • C_{ℓ,k}` for the
    commitment filed for that very sender — each share on its own, not merely their sum. -/
theorem refresh_round2_accept (S : Suite F E) (sp : Round2Secret F E)
    (r1 : List (F × Round1Package F E)) (r2 : List (F × F)) (oldPkp : PublicKeyPackage F E)
    (oldKp : KeyPackage F E) (out : KeyPackage F E × PublicKeyPackage F E)
    (h : refreshDkgShares S sp r1 r2 oldPkp oldKp = .ok out) :
    ∀ lv ∈ r2, ∃ C, SMap.get? (r1.map fun ip => (ip.1, (0 : E) :: ip.2.commitment)) lv.1 = some C ∧
      lv.2 • S.G = vssR C sp.id := by
  unfold refreshDkgShares at h
  split at h; · cases h
  simp only at h
  split at h; · cases h
  split at h; · cases h
  split at h; · cases h
  split at h; · cases h
  split at h
  · rename_i sum hsum
    intro lv hlv
    obtain ⟨_, hall⟩ := (part3Loop_ok_iff S sp.id _ false r2 0 sum).1 hsum
    obtain ⟨C, hC, _, hv⟩ := hall lv hlv
    exact ⟨C, hC, hv⟩
  · cases h
  · cases h

/-- if `part2` succeeds, every filed round-one commitment has the recorded threshold as its
    length (this discharges the length hypothesis of `part3_ok_consistent` for the map that
    `part2` accepted) -/
theorem part2_ok_lengths (S : Suite F E) (sp : Round1Secret F E)
    (r1 : List (F × Round1Package F E)) (out : Round2Secret F E × List (F × F))
    (h : dkgPart2 S sp r1 = .ok out) :
    ∀ ip ∈ r1, asU16 ip.2.commitment.length = sp.minSigners := by
  unfold dkgPart2 at h
  split at h; · cases h
  split at h; · cases h
  split at h; · cases h
  split at h; · cases h
  rename_i hany
  intro ip hip
  simp only [List.any_eq_true, not_exists, not_and] at hany
  have := hany ip hip
  simpa using this

/-- **Every successful `part3` yields internally consistent key material**
    (see `Frost.part3_ok_consistent`). -/
theorem part3_ok_consistent (S : Suite F E) (hpost : ∀ kp pkp, S.postDkg kp pkp = (kp, pkp))
    (sp : Round2Secret F E) (r1 : List (F × Round1Package F E)) (r2 : List (F × F))
    (kp : KeyPackage F E) (pkp : PublicKeyPackage F E)
    (h : dkgPart3 S sp r1 r2 = .ok (kp, pkp))
    (hk1 : (SMap.keys r1).Nodup) (hk2 : (SMap.keys r2).Nodup)
    (hlen : ∀ ip ∈ r1, ip.2.commitment.length = sp.commitment.length)
    (hne : sp.commitment ≠ [])
    (hown : sp.secretShare • S.G = vssR sp.commitment sp.id) :
    kp.id = sp.id ∧ kp.vshare = kp.share • S.G ∧ kp.vk = pkp.vk ∧
    kp.minSigners = sp.minSigners ∧ pkp.minSigners = some (asU16 sp.commitment.length) ∧
    SMap.get? pkp.vshares sp.id = some kp.vshare ∧
    (SMap.keys pkp.vshares).Perm (sp.id :: SMap.keys r1) :=
  Frost.part3_ok_consistent S hpost sp r1 r2 kp pkp h hk1 hk2 hlen hne hown

/-- **The public key package is a function of the set of round-one commitments only**:
    two participants whose complete commitment maps hold the same entries (in any order)
    derive the same group key, the same threshold and the same verifying share for every
    identifier. -/
theorem pkp_function_of_commitments (cm cm' : List (F × List E)) (L : Nat) (hne : cm ≠ [])
    (hperm : cm.Perm cm') (hL : ∀ ic ∈ cm, ic.2.length = L) (hLpos : 0 < L) :
    ∃ p p' : PublicKeyPackage F E,
      (PublicKeyPackage.fromDkgCommitments cm : Outcome F _) = .ok p ∧
      (PublicKeyPackage.fromDkgCommitments cm' : Outcome F _) = .ok p' ∧
      p.vk = p'.vk ∧ p.minSigners = p'.minSigners ∧
      ∀ id ∈ SMap.keys cm, SMap.get? p.vshares id = SMap.get? p'.vshares id := by
  have hne' : cm' ≠ [] := by
    intro e; rw [e] at hperm; exact hne hperm.eq_nil
  have hL' : ∀ ic ∈ cm', ic.2.length = L := fun ic hic => hL ic (hperm.mem_iff.mpr hic)
  obtain ⟨gc, _, hv, hp⟩ := fromDkgCommitments_spec (F := F) cm L hne hL hLpos
  obtain ⟨gc', _, hv', hp'⟩ := fromDkgCommitments_spec (F := F) cm' L hne' hL' hLpos
  have heq : ∀ x : F, vssR gc x = vssR gc' x := by
    intro x; rw [hv, hv', (hperm.map fun ic => vssR ic.2 x).sum_eq]
  refine ⟨_, _, hp, hp', heq 0, rfl, ?_⟩
  intro id hid
  have hid' : id ∈ SMap.keys cm' := (hperm.map Prod.fst).mem_iff.mp hid
  simp only
  rw [get?_map_self _ _ _ hid, get?_map_self _ _ _ hid', heq id]

/-- **Participants that completed on one common commitment set can sign together.**
    Proved purely in the group from the VSS checks — it holds even if the senders'
    polynomials are unknown: signers `X.ids` whose signing shares satisfy
    `sᵢ • G = Σ_k i^k • gc_k` for a common summed commitment `gc` with at most `|X.ids|`
    entries, and the group key `gc₀ = Σ_k 0^k • gc_k`, produce an aggregate that is released
    in every detection mode (hence valid, by C04). -/
theorem common_set_can_sign (B : Base F E) (X : SignSession F E) (h : X.Ok B)
    (gc : List E) (hlen : gc.length ≤ X.ids.length) (s : F → F)
    (hs : ∀ i ∈ X.ids, s i • B.G = vssR gc i) (hvk : X.vk = vssR gc (0 : F))
    (pkp : PublicKeyPackage F E) (hpvk : pkp.vk = X.vk)
    (hvs : ∀ i ∈ X.ids, SMap.get? pkp.vshares i = some (s i • B.G))
    (hmin : ∀ m, pkp.minSigners = some m → m ≤ X.ids.length) (mode : CheaterDetection) :
    aggregateCustom (Suite.ofBase B) (X.pkg B) (X.sharesMap (X.honest s)) pkp mode =
      .ok ⟨X.R, (X.ids.map (X.honest s)).sum⟩ := by
  rw [aggregate_eq h (fun i => s i • B.G) (X.honest s) pkp hpvk hvs hmin mode]
  have hchk : ((X.ids.map (X.honest s)).sum • B.G - X.c • X.vk) - X.R = 0 := by
    have := check_eq h s (fun _ => 0)
    simp only [add_zero, List.map_const', List.sum_replicate, smul_zero, zero_smul, zero_add]
      at this
    rw [this]
    have hsum : (X.ids.map fun i => X.lam i * s i).sum • B.G = vssR gc (0 : F) := by
      rw [← lagrange_interp_module X.ids h.nodup gc hlen 0]
      have : ∀ l : List F, (l.map fun i => X.lam i * s i).sum • B.G =
          (l.map fun i => X.lam i • (s i • B.G)).sum := by
        intro l
        induction l with
        | nil => simp
        | cons a r ih => simp [add_smul, ih, mul_smul]
      rw [this]
      congr 1
      apply List.map_congr_left
      intro i hi
      rw [hs i hi]; rfl
    rw [hsum, hvk, sub_self, smul_zero]
  rw [if_pos (by rw [hchk, smul_zero])]

/-! Non-vacuity: over ℚ (`G = 1`) the summed commitment `[5, 7]` and signers `1, 2` with
    shares `12, 19` satisfy the hypothesis `sᵢ • G = Σ i^k • gc_k`. -/
example : (12 : ℚ) • (1 : ℚ) = vssR ([5, 7] : List ℚ) (1 : ℚ) ∧
    (19 : ℚ) • (1 : ℚ) = vssR ([5, 7] : List ℚ) (2 : ℚ) := by
  constructor <;> simp [vssR] <;> norm_num

end Frost.C09
