/-
  C01 — Any t-or-more honest signers produce a signature that verifies as a plain one.

  Stated for the ciphersuites that override no hooks (five of six; the Taproot suite
  is C18), for every field `F`, module `E`, generator, hash functions, identifier
  order, threshold, signer list (any length ≥ t), message, sharing polynomial and
  nonces.  The session's hash-derived values are required to *exist*
  (`SignSession.Ok`: the commitments, the group commitment `R` and the key are
  encodable, i.e. not the identity — the hypothesis named in DESIGN.md §7/C01);
  everything else is proved.
-/
import Frost.Proofs.Honest
import Frost.Proofs.NafValue
import Mathlib.Data.ZMod.Basic
import Mathlib.Algebra.Field.ZMod
import Frost.Proofs.LeSoundRef

set_option linter.unusedSectionVars false

namespace Frost.C01
open Frost Frost.SignSession

variable {F E : Type} [Field F] [DecidableEq F] [AddCommGroup E] [Module F E] [DecidableEq E]

/-- **Sign → share verification → aggregation → verification all succeed** for any
    signer list `X.ids` of distinct identifiers with `t = |cs| ≤ |X.ids|`, where
    participant `i` holds `f(i)` for the sharing polynomial `f` with coefficients `cs`
    and the group key is `f(0) • G`. -/
theorem sign_aggregate_verify (B : Base F E) (X : SignSession F E) (h : X.Ok B)
    (cs : List F) (hlen : cs.length ≤ X.ids.length) (hvk : X.vk = hornerR cs 0 • B.G)
    (pkp : PublicKeyPackage F E) (hpvk : pkp.vk = X.vk)
    (hvs : ∀ i ∈ X.ids, SMap.get? pkp.vshares i = some (hornerR cs i • B.G))
    (hmin : ∀ m, pkp.minSigners = some m → m ≤ X.ids.length)
    (m : Nat) (hm : m ≤ X.ids.length) :
    let s := fun i => hornerR cs i
    let σ : Signature F E := ⟨X.R, (X.ids.map (X.honest s)).sum⟩
    (∀ i ∈ X.ids, sign (Suite.ofBase B) (X.pkg B) (X.nonces B i)
        ⟨i, s i, s i • B.G, X.vk, m⟩ = .ok (X.honest s i)) ∧
    (∀ i ∈ X.ids, verifySignatureShare (Suite.ofBase B) i (s i • B.G) (X.honest s i)
        (X.pkg B) X.vk = .ok ()) ∧
    (∀ mode, aggregateCustom (Suite.ofBase B) (X.pkg B) (X.sharesMap (X.honest s)) pkp mode
        = .ok σ) ∧
    verifySignature (Suite.ofBase B) X.vk X.msg σ = .ok () := by
  intro s σ
  have hchk : ((X.ids.map (X.honest s)).sum • B.G - X.c • X.vk) - X.R = 0 := by
    have := check_eq h s (fun _ => 0)
    simp only [add_zero, List.map_const', List.sum_replicate, smul_zero, zero_smul, zero_add]
      at this
    rw [this, lam_sum h cs hlen, hvk, sub_self, smul_zero]
  refine ⟨?_, ?_, ?_, ?_⟩
  · intro i hi
    exact sign_eq h i hi s _ m hm
  · intro i hi
    rw [verifySignatureShare_eq h i hi]
    have := (shareOk_iff (B := B) (X := X) s (fun _ => 0) i).mpr (by simp)
    simp only [add_zero] at this
    exact if_pos this
  · intro mode
    rw [aggregate_eq h (fun i => s i • B.G) (X.honest s) pkp hpvk hvs hmin mode]
    rw [if_pos (by rw [hchk, smul_zero])]
  · unfold verifySignature
    have hσR : σ.R = X.R := rfl
    have hσz : σ.z = (X.ids.map (X.honest s)).sum := rfl
    simp only [ofBase_preVerify, ofBase_challenge, hσR, h.hc]
    unfold Base.verifyPrehashed
    simp only [ofBase_toBase, hσR, hσz, hchk, smul_zero, if_true]

/-- the signature survives its wire encoding: for the default encoding
    `enc R ‖ enc z`, decoding returns the same signature whenever the two primitive
    codecs round-trip -/
theorem signature_roundtrip (B : Base F E) (σ : Signature F E) (bytes : Bytes)
    (hser : B.defaultSerializeSignature σ = .ok bytes)
    (hG : ∃ g, B.encElem B.G = some g ∧ g.length = B.elemLen)
    (hEl : ∀ P b, B.encElem P = some b → b.length = B.elemLen ∧ B.decElem b = .ok P)
    (hSc : ∀ x, (B.encScalar x).length = B.scalarLen ∧ B.decScalar (B.encScalar x) = some x) :
    B.defaultDeserializeSignature bytes = .ok σ := by
  unfold Base.defaultSerializeSignature Base.encElemO at hser
  cases hR : B.encElem σ.R with
  | none => simp [hR, Outcome.ofOption] at hser
  | some r =>
    simp only [hR, Outcome.ofOption, Outcome.ok.injEq] at hser
    obtain ⟨g, hg, hgl⟩ := hG
    obtain ⟨hrl, hrd⟩ := hEl _ _ hR
    obtain ⟨hzl, hzd⟩ := hSc σ.z
    have hz0 := (hSc 0).1
    unfold Base.defaultDeserializeSignature Base.encElemO
    simp only [hg, Outcome.ofOption]
    subst hser
    have h1 : (r ++ B.encScalar σ.z).length = g.length + (B.encScalar 0).length := by
      simp [hrl, hgl, hzl, hz0]
    simp only [h1, ne_eq, not_true_eq_false, if_false]
    have h2 : (r ++ B.encScalar σ.z).take g.length = r := by
      rw [hgl, ← hrl]; simp
    have h3 : ((r ++ B.encScalar σ.z).drop g.length).take (B.encScalar 0).length
        = B.encScalar σ.z := by
      rw [hgl, ← hrl, hz0, ← hzl]; simp
    rw [h2, h3, hrd, hzd]

/-! Non-vacuity: a concrete session over ℚ (two signers `1, 2`, polynomial `3 + 4x`,
    nonces `d = 1, e = 2`) meets the algebraic hypotheses of the theorem:
    distinct identifiers and `t ≤ |S|`. -/
example : ([1, 2] : List ℚ).Nodup ∧ ([3, 4] : List ℚ).length ≤ ([1, 2] : List ℚ).length := by
  constructor
  · decide
  · decide

/-- **The multiscalar multiplication is correct** (`SignSession.Ok`'s field `msm`, the
    hypothesis `MsmSound`, is not an assumption about the algorithm): whenever
    `little_endian_serialize` is the fixed-length little-endian encoding of the scalar, the
    width-5 NAF digits reassemble the scalar (`nonAdjacentForm_value`, by induction over the loop
    for every byte length) and the interleaved double-and-add with its 8-entry lookup tables
    returns `Σ sᵢ • Pᵢ`. -/
theorem msm_sound (le : F → Bytes) (hle : LeSound le) : MsmSound (E := E) le :=
  msmSound_of_leSound le hle

/-- **The encoding law holds for the encoder the reference suites run**: over `ZMod q`, for every
    prime `q ≤ 256^len` (the five real scalar fields with 32 / 57 bytes among them),
    `fun s => natToLE s.val len` satisfies `LeSound`; so on those fields `MsmSound` — and with it
    the signing, batch and group-commitment theorems — has no hypothesis left about the
    multiscalar code. -/
theorem leSound_ref (q len : Nat) [Fact q.Prime] (hq : q ≤ 256 ^ len) :
    LeSound (F := ZMod q) (fun s => Frost.Ref.natToLE s.val len) :=
  leSound_natToLE q len hq

/-- `MsmSound` for the reference encoder, unconditionally -/
theorem msm_sound_ref (q len : Nat) [Fact q.Prime] (hq : q ≤ 256 ^ len)
    {E' : Type} [AddCommGroup E'] [Module (ZMod q) E'] [DecidableEq E'] :
    MsmSound (F := ZMod q) (E := E') (fun s => Frost.Ref.natToLE s.val len) :=
  msmSound_of_leSound _ (leSound_natToLE q len hq)

/-- the NAF digits of every byte string reassemble the number it denotes, are odd, lie in
    (-16, 16) and sit at distinct positions below the NAF length -/
theorem naf_value (le : Bytes) (ds : List (Nat × Int)) (h : nonAdjacentForm le 5 = some ds) :
    nafValue ds = (leNat le : Int) ∧ NafOk (8 * le.length + 1) ds :=
  nonAdjacentForm_value le ds h

/-- non-vacuity of the encoding law: one-byte little-endian scalars of `ZMod 3` -/
example : LeSound (F := ZMod 3) (fun s => [UInt8.ofNat s.val]) := by
  refine ⟨?_, fun _ _ => rfl⟩
  intro s
  have hlt : s.val < 3 := ZMod.val_lt s
  have : leNat [UInt8.ofNat s.val] = s.val := by
    simp [leNat, UInt8.toNat_ofNat']
    omega
  rw [this, ZMod.natCast_zmod_val]

end Frost.C01
