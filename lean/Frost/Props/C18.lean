/-
  C18 — Taproot signatures are valid BIP-340 signatures for the BIP-341 output key.

  `evenY` and `xOnly` are abstract; the theorems quantify over *all* group elements, so every
  combination of (internal-key, output-key, group-commitment) parity is covered by the case
  analysis inside the proofs.  The only facts assumed about them are
  `evenY (−P) = !evenY P` for `P ≠ 0` and `xOnly (−P) = xOnly P`.
-/
import Frost.Proofs.TaprootSigning

set_option linter.unusedSectionVars false

namespace Frost.C18
open Frost Frost.SignSession

variable {F E : Type} [Field F] [DecidableEq F] [AddCommGroup E] [Module F E] [DecidableEq E]

/-- sign of the even-Y normalisation of a key -/
def sgnK (P : TrParams F E) (vk : E) : F := if P.evenY vk then 1 else -1

theorem sgnK_smul (P : TrParams F E) (vk Q : E) :
    (if P.evenY vk then Q else -Q) = sgnK P vk • Q := by
  unfold sgnK; by_cases h : P.evenY vk = true <;> simp [h]

/-- **Even-Y normalisation negates the whole sharing**: a key package with share `s`,
    verifying share `s•G` and group key `key•G` becomes the package with `σs`, `(σs)•G`,
    `(σ·key)•G` (`σ = ±1`), so it is again a consistent sharing — of the even-Y key. -/
theorem evenKp_sharing (P : TrParams F E) (G : E) (id s key : F) (m : Nat) :
    P.evenKp ⟨id, s, s • G, key • G, m⟩ =
      ⟨id, sgnK P (key • G) * s, (sgnK P (key • G) * s) • G, (sgnK P (key • G) * key) • G, m⟩ := by
  unfold TrParams.evenKp sgnK
  by_cases h : P.evenY (key • G) = true
  · simp [h]
  · simp [h]

theorem evenKp_even (P : TrParams F E) (hneg : ∀ Q : E, Q ≠ 0 → P.evenY (-Q) = !P.evenY Q)
    (kp : KeyPackage F E) (hne : kp.vk ≠ 0) : P.evenY (P.evenKp kp).vk = true := by
  unfold TrParams.evenKp
  by_cases h : P.evenY kp.vk = true
  · simp [h]
  · simp only [h, if_false, Bool.false_eq_true]
    rw [hneg _ hne]; simp [h]

/-- **The tweak maps a sharing of the internal key `P = key•G` to a sharing of the BIP-341
    output key `Q = even(P) + τ•G`**, `τ = tweak(P, root)`: shares `σs + τ` (a constant shift of
    the even-normalised polynomial), verifying shares and group key shifted by `τ•G`. -/
theorem tweakKp_sharing (P : TrParams F E) (G : E) (id s key : F) (m : Nat) (root : Option Bytes) :
    let τ := P.tweak (key • G) root
    let σ := sgnK P (key • G)
    P.tweakKp G ⟨id, s, s • G, key • G, m⟩ root =
      ⟨id, σ * s + τ, (σ * s + τ) • G, (σ * key + τ) • G, m⟩ := by
  intro τ σ
  unfold TrParams.tweakKp
  simp only [evenKp_sharing]
  simp only [KeyPackage.mk.injEq, true_and, and_true]
  refine ⟨rfl, ?_, ?_⟩ <;> module

/-- the output key is `even(P) + τ•G`, exactly BIP-341's `Q = lift_x(x(P)) + τG` -/
theorem tweakKp_outputKey (P : TrParams F E) (G : E) (kp : KeyPackage F E) (root : Option Bytes) :
    (P.tweakKp G kp root).vk =
      (if P.evenY kp.vk then kp.vk else -kp.vk) + P.tweak kp.vk root • G := by
  unfold TrParams.tweakKp TrParams.evenKp
  by_cases h : P.evenY kp.vk = true <;> simp [h]

theorem tweakPkp_outputKey (P : TrParams F E) (G : E) (pkp : PublicKeyPackage F E)
    (root : Option Bytes) :
    (P.tweakPkp G pkp root).vk =
      (if P.evenY pkp.vk then pkp.vk else -pkp.vk) + P.tweak pkp.vk root • G := by
  unfold TrParams.tweakPkp TrParams.evenPkp
  by_cases h : P.evenY pkp.vk = true <;> simp [h]

/-- key generation outputs the key-path-only tweaked key (`post_dkg` = tweak with no root) -/
theorem post_dkg_tweak (B : Base F E) (P : TrParams F E) (kp : KeyPackage F E)
    (pkp : PublicKeyPackage F E) :
    (Suite.taproot B P).postDkg kp pkp = (P.tweakKp B.G kp none, P.tweakPkp B.G pkp none) := rfl

/-- per share: the honest Taproot share satisfies the parity-adjusted share equation, and a
    share altered by `δ` satisfies it iff `δ • G = 0` — **in both parities of the group
    commitment** -/
theorem trShareOk_iff (B : Base F E) (P : TrParams F E) (X : SignSession F E) (s δ : F → F)
    (i : F) :
    trShareOk (B := B) (P := P) (X := X) (fun i => s i • B.G)
      (fun i => trHonest P X s i + δ i) i ↔ δ i • B.G = 0 := by
  unfold trShareOk trHonest
  constructor
  · intro h
    have : (sgnR P X * (X.d i + X.e i * X.rho i) + X.lam i * s i * X.c + δ i) • B.G
        - (sgnR P X • (X.d i • B.G + X.rho i • X.e i • B.G) + X.lam i • X.c • s i • B.G)
        = δ i • B.G := by module
    rw [← this, h, sub_self]
  · intro h
    have : (sgnR P X * (X.d i + X.e i * X.rho i) + X.lam i * s i * X.c + δ i) • B.G
        = (sgnR P X • (X.d i • B.G + X.rho i • X.e i • B.G) + X.lam i • X.c • s i • B.G)
          + δ i • B.G := by module
    rw [this, h, add_zero]

theorem tr_sum_identity (l : List F) (σ : F) (d e rho lam s δ : F → F) (c : F) (G : E) :
    (l.map fun i => σ * (d i + e i * rho i) + lam i * s i * c + δ i).sum • G
      = σ • (l.map fun i => d i • G + rho i • (e i • G)).sum
        + c • ((l.map fun i => lam i * s i).sum • G) + (l.map δ).sum • G := by
  induction l with
  | nil => simp
  | cons a r ih =>
    simp only [List.map_cons, List.sum_cons, add_smul, ih, smul_add]
    module

/-- **Taproot signing is correct and yields a BIP-340 signature** — for keys on a polynomial
    (dealer or DKG, after tweaking: `vk` is the *even-Y* output key the packages carry after
    `pre_sign`/`pre_aggregate`, `f` its sharing polynomial), any signer list with `|f| ≤ |S|`,
    any message, any nonces, and **both parities of the group commitment**:
    every `sign` succeeds, the aggregate is released in every detection mode, and the output
    `(R, z)` satisfies `z•G = even(R) + e•vk` with `e = H(xOnly R ‖ xOnly vk ‖ m)` — the
    BIP-340 verification equation for the x-only key `xOnly vk`. -/
theorem taproot_sign_correct (B : Base F E) (P : TrParams F E) (X : SignSession F E)
    (h : X.Ok0 B P) (hev : P.evenY X.vk = true) (hx : ∀ Q : E, P.xOnly (-Q) = P.xOnly Q)
    (cs : List F) (hlen : cs.length ≤ X.ids.length) (hvk : X.vk = hornerR cs 0 • B.G)
    (pkp : PublicKeyPackage F E) (hpvk : pkp.vk = X.vk)
    (hvs : ∀ i ∈ X.ids, SMap.get? pkp.vshares i = some (hornerR cs i • B.G))
    (hmin : ∀ m, pkp.minSigners = some m → m ≤ X.ids.length) (m : Nat) (hm : m ≤ X.ids.length) :
    let s := fun i => hornerR cs i
    let z := (X.ids.map (trHonest P X s)).sum
    (∀ i ∈ X.ids, sign (Suite.taproot B P) (X.pkg B) (X.nonces B i) ⟨i, s i, s i • B.G, X.vk, m⟩
        = .ok (trHonest P X s i)) ∧
    (∀ mode, aggregateCustom (Suite.taproot B P) (X.pkg B) (X.sharesMap (trHonest P X s)) pkp mode
        = .ok ⟨X.R, z⟩) ∧
    z • B.G = (if P.evenY X.R then X.R else -X.R) + X.c • X.vk ∧
    X.c = B.H2 (P.xOnly X.R ++ P.xOnly X.vk ++ X.msg) := by
  intro s z
  have hz : z • B.G = sgnR P X • X.R + X.c • X.vk := by
    have := tr_sum_identity X.ids (sgnR P X) X.d X.e X.rho X.lam s (fun _ => 0) X.c B.G
    simp only [add_zero, List.map_const', List.sum_replicate, smul_zero, zero_smul] at this
    show (X.ids.map (trHonest P X s)).sum • B.G = _
    unfold trHonest
    have hl : (X.ids.map fun i => X.lam i * s i).sum = hornerR cs 0 :=
      lagrange_interp_list X.ids h.nodup cs hlen 0
    rw [this, ← R_eq0 h, hl, hvk]
  refine ⟨?_, ?_, ?_, h.hc⟩
  · intro i hi
    exact tr_sign_eq h hev i hi s _ m hm
  · intro mode
    rw [tr_aggregate_eq h hev hx (fun i => s i • B.G) (trHonest P X s) pkp hpvk hvs hmin mode]
    rw [if_pos]
    show B.cofactor • ((z • B.G - X.c • X.vk) - sgnR P X • X.R) = 0
    rw [hz]
    have : sgnR P X • X.R + X.c • X.vk - X.c • X.vk - sgnR P X • X.R = 0 := by abel
    rw [this, smul_zero]
  · rw [hz, sgn_smul]

/-- **Cheater identification gives the same answers in every parity case**: with submitted
    shares `honestᵢ + δᵢ` the aggregate is released iff `Σδ = 0`; otherwise the report is
    `culpritReport` over the signers with `δᵢ ≠ 0` — the statement of C04, now for the Taproot
    hooks and both parities of the group commitment. -/
theorem taproot_culprits_exact (B : Base F E) (P : TrParams F E) (X : SignSession F E)
    (h : X.Ok0 B P) (hev : P.evenY X.vk = true) (hx : ∀ Q : E, P.xOnly (-Q) = P.xOnly Q)
    (hG : B.G ≠ 0) (hcof : B.cofactor ≠ 0)
    (cs : List F) (hlen : cs.length ≤ X.ids.length) (hvk : X.vk = hornerR cs 0 • B.G)
    (pkp : PublicKeyPackage F E) (hpvk : pkp.vk = X.vk)
    (hvs : ∀ i ∈ X.ids, SMap.get? pkp.vshares i = some (hornerR cs i • B.G))
    (hmin : ∀ m, pkp.minSigners = some m → m ≤ X.ids.length) (δ : F → F)
    (mode : CheaterDetection) :
    let s := fun i => hornerR cs i
    let z := fun i => trHonest P X s i + δ i
    aggregateCustom (Suite.taproot B P) (X.pkg B) (X.sharesMap z) pkp mode =
      if (X.ids.map δ).sum = 0 then .ok ⟨X.R, (X.ids.map z).sum⟩
      else .error (culpritReport X.ids (fun i => decide (δ i ≠ 0)) mode) := by
  intro s z
  rw [tr_aggregate_eq h hev hx (fun i => s i • B.G) z pkp hpvk hvs hmin mode]
  have hchk : ((X.ids.map z).sum • B.G - X.c • X.vk) - sgnR P X • X.R = (X.ids.map δ).sum • B.G := by
    have := tr_sum_identity X.ids (sgnR P X) X.d X.e X.rho X.lam s δ X.c B.G
    show (X.ids.map fun i => trHonest P X s i + δ i).sum • B.G - _ - _ = _
    unfold trHonest
    have hl : (X.ids.map fun i => X.lam i * s i).sum = hornerR cs 0 :=
      lagrange_interp_list X.ids h.nodup cs hlen 0
    rw [this, ← R_eq0 h, hl, hvk]
    abel
  have hiff : B.cofactor • (((X.ids.map z).sum • B.G - X.c • X.vk) - sgnR P X • X.R) = 0 ↔
      (X.ids.map δ).sum = 0 := by
    rw [hchk, smul_smul]
    constructor
    · intro h0
      rcases smul_eq_zero.mp h0 with h1 | h1
      · rcases mul_eq_zero.mp h1 with h2 | h2
        · exact absurd h2 hcof
        · exact h2
      · exact absurd h1 hG
    · intro h0; rw [h0, mul_zero, zero_smul]
  have hfun : (fun i => decide (¬ trShareOk (B := B) (P := P) (X := X) (fun i => s i • B.G) z i)) =
      fun i => decide (δ i ≠ 0) := by
    funext i
    have h1 := trShareOk_iff B P X s δ i
    simp only [decide_eq_decide]
    apply not_congr
    rw [h1]
    constructor
    · intro h0
      rcases smul_eq_zero.mp h0 with h2 | h2
      · exact h2
      · exact absurd h2 hG
    · intro h0; rw [h0, zero_smul]
  by_cases hz : (X.ids.map δ).sum = 0
  · rw [if_pos (hiff.mpr hz), if_pos hz]
  · rw [if_neg (fun h0 => hz (hiff.mp h0)), if_neg hz, hfun]

/-- **Under the untweaked key**: a signature satisfying the BIP-340 equation for the output
    key `(q)•G` with challenge `e` satisfies it for the untweaked internal key `p•G` with that
    key's challenge `e'` iff `e·q = e'·p` — a coincidence between two hash values when a tweak
    was applied (`q ≠ p`). -/
theorem untweaked_iff (G : E) (hG : G ≠ 0) (p q e e' z : F) (Re : E)
    (hvalid : z • G = Re + e • (q • G)) :
    z • G = Re + e' • (p • G) ↔ e * q = e' * p := by
  rw [hvalid]
  constructor
  · intro h
    have : (e * q - e' * p) • G = 0 := by
      have h2 := add_left_cancel h
      rw [sub_smul, mul_smul, mul_smul, h2, sub_self]
    rcases smul_eq_zero.mp this with h0 | h0
    · exact sub_eq_zero.mp h0
    · exact absurd h0 hG
  · intro h
    rw [smul_smul, smul_smul, h]

/-- **What the Taproot verifier accepts**: after normalising `R` and the key to even `Y`, exactly
    the BIP-340 equation `z•G − c•P' = R'` (cofactor-multiplied; the cofactor of secp256k1 is 1)
    with the x-only challenge — the PARITY of the recomputed point is part of the test, not only
    its x-coordinate. -/
theorem taproot_verify_iff (B : Base F E) (P : TrParams F E) (vk : E) (msg : Bytes)
    (sig : Signature F E) :
    verifySignature (Suite.taproot B P) vk msg sig = .ok () ↔
      B.cofactor • ((sig.z • B.G -
        B.H2 (P.xOnly (if P.evenY sig.R then sig.R else -sig.R) ++
              P.xOnly (if P.evenY vk then vk else -vk) ++ msg) •
          (if P.evenY vk then vk else -vk)) -
        (if P.evenY sig.R then sig.R else -sig.R)) = 0 := by
  unfold verifySignature
  simp only [Suite.taproot, Base.verifyPrehashed]
  by_cases h1 : P.evenY sig.R <;> by_cases h2 : P.evenY vk <;>
    simp only [h1, h2, if_true, if_false, Bool.false_eq_true] <;>
    (split <;> simp_all)

/-- **The mirrored response is rejected**: if `(R, z)` verifies, then `(R, 2·c·d − z)` — whose
    recomputed commitment is `−R'`, the point with the SAME x-coordinate and odd `Y` — verifies
    only if `R' = 0` (given `2 ≠ 0` and a non-zero cofactor scalar).  `d` is the discrete
    logarithm of the even-`Y` key. -/
theorem taproot_mirror_rejected (B : Base F E) (h2 : (2 : F) ≠ 0) (hcof : B.cofactor ≠ 0)
    (d c z : F) (R' : E) (hvalid : B.cofactor • ((z • B.G - c • (d • B.G)) - R') = 0) :
    B.cofactor • (((2 * c * d - z) • B.G - c • (d • B.G)) - R') = 0 ↔ R' = 0 := by
  have hv : z • B.G - c • (d • B.G) = R' := by
    rcases smul_eq_zero.mp hvalid with h | h
    · exact absurd h hcof
    · exact sub_eq_zero.mp h
  have key : ((2 * c * d - z) • B.G - c • (d • B.G)) - R' = -((2 : F) • R') := by
    rw [← hv]
    simp only [sub_smul, mul_smul, two_smul, smul_sub]
    abel
  rw [key]
  constructor
  · intro h
    rcases smul_eq_zero.mp h with h0 | h0
    · exact absurd h0 hcof
    · rcases smul_eq_zero.mp (neg_eq_zero.mp h0) with h3 | h3
      · exact absurd h3 h2
      · exact h3
  · intro h
    rw [h]; simp

/-! Non-vacuity: parity functions with the two assumed laws exist — e.g. over ℚ the "parity"
    `evenY x := decide (0 ≤ x)` satisfies `evenY (−x) = !evenY x` for `x ≠ 0`, and
    `xOnly x := []` satisfies `xOnly (−x) = xOnly x`; each of the eight parity combinations
    is realised by suitable signs of key, tweaked key and group commitment. -/
example : ∀ x : ℚ, x ≠ 0 → decide (0 ≤ -x) = !decide (0 ≤ x) := by
  intro x hx
  rcases lt_or_gt_of_ne hx with h | h
  · have h1 : ¬ (0 ≤ x) := not_le.mpr h
    have h2 : 0 ≤ -x := by linarith
    simp [h1, h2]
  · have h1 : 0 ≤ x := le_of_lt h
    have h2 : ¬ (0 ≤ -x) := by linarith
    simp [h1, h2]

end Frost.C18
