/-
SHA-256 (FIPS 180-4), pure Lean 4, no imports beyond core `Init` (plus the test helpers in
`Frost.Ref.Hex`, used only by the `#guard` checks at the end of the file).

Round constants are transcribed mechanically from `notes/ref_prototype/hash_consts.json`
(computed there from their definitions and validated against `hashlib`).
-/
import Frost.Ref.Hex

namespace Frost.Ref

/-- SHA-256 round constants `K[0..63]`. -/
def sha256K : Array UInt32 := #[
  0x428a2f98, 0x71374491, 0xb5c0fbcf, 0xe9b5dba5, 0x3956c25b, 0x59f111f1, 0x923f82a4, 0xab1c5ed5,
  0xd807aa98, 0x12835b01, 0x243185be, 0x550c7dc3, 0x72be5d74, 0x80deb1fe, 0x9bdc06a7, 0xc19bf174,
  0xe49b69c1, 0xefbe4786, 0x0fc19dc6, 0x240ca1cc, 0x2de92c6f, 0x4a7484aa, 0x5cb0a9dc, 0x76f988da,
  0x983e5152, 0xa831c66d, 0xb00327c8, 0xbf597fc7, 0xc6e00bf3, 0xd5a79147, 0x06ca6351, 0x14292967,
  0x27b70a85, 0x2e1b2138, 0x4d2c6dfc, 0x53380d13, 0x650a7354, 0x766a0abb, 0x81c2c92e, 0x92722c85,
  0xa2bfe8a1, 0xa81a664b, 0xc24b8b70, 0xc76c51a3, 0xd192e819, 0xd6990624, 0xf40e3585, 0x106aa070,
  0x19a4c116, 0x1e376c08, 0x2748774c, 0x34b0bcb5, 0x391c0cb3, 0x4ed8aa4a, 0x5b9cca4f, 0x682e6ff3,
  0x748f82ee, 0x78a5636f, 0x84c87814, 0x8cc70208, 0x90befffa, 0xa4506ceb, 0xbef9a3f7, 0xc67178f2
]

/-- SHA-256 initial hash value `H(0)`. -/
def sha256H0 : Array UInt32 := #[
  0x6a09e667, 0xbb67ae85, 0x3c6ef372, 0xa54ff53a, 0x510e527f, 0x9b05688c, 0x1f83d9ab, 0x5be0cd19
]

/-- Rotate a 32-bit word right by `n` bits, `0 < n < 32`. -/
@[inline] def rotr32 (x n : UInt32) : UInt32 := (x >>> n) ||| (x <<< (32 - n))

/-- Merkle–Damgård padding: `msg ‖ 0x80 ‖ 0x00* ‖ bitlen(msg)` as a 64-bit big-endian integer,
    padded to a multiple of 64 bytes. -/
def sha256Pad (msg : ByteArray) : ByteArray := Id.run do
  let len := msg.size
  let zeros := (64 - (len + 9) % 64) % 64
  let bitLen := 8 * len
  let mut m := msg.push 0x80
  for _ in [0:zeros] do
    m := m.push 0
  for i in [0:8] do
    m := m.push (UInt8.ofNat (bitLen >>> (8 * (7 - i))))
  return m

/-- Big-endian 32-bit word at byte offset `j` of `m`. -/
@[inline] def beWord32 (m : ByteArray) (j : Nat) : UInt32 :=
  ((m.get! j).toUInt32 <<< 24) ||| ((m.get! (j + 1)).toUInt32 <<< 16) |||
  ((m.get! (j + 2)).toUInt32 <<< 8) ||| (m.get! (j + 3)).toUInt32

/-- One application of the SHA-256 compression function to the 64-byte block of `m`
    starting at byte offset `off`, with chaining value `h` (8 words). -/
def sha256Block (h : Array UInt32) (m : ByteArray) (off : Nat) : Array UInt32 := Id.run do
  -- message schedule
  let mut w : Array UInt32 := Array.replicate 64 0
  for i in [0:16] do
    w := w.set! i (beWord32 m (off + 4 * i))
  for i in [16:64] do
    let w15 := w[i - 15]!
    let w2 := w[i - 2]!
    let s0 := rotr32 w15 7 ^^^ rotr32 w15 18 ^^^ (w15 >>> 3)
    let s1 := rotr32 w2 17 ^^^ rotr32 w2 19 ^^^ (w2 >>> 10)
    w := w.set! i (w[i - 16]! + s0 + w[i - 7]! + s1)
  -- 64 rounds
  let mut a := h[0]!
  let mut b := h[1]!
  let mut c := h[2]!
  let mut d := h[3]!
  let mut e := h[4]!
  let mut f := h[5]!
  let mut g := h[6]!
  let mut hh := h[7]!
  for i in [0:64] do
    let bigS1 := rotr32 e 6 ^^^ rotr32 e 11 ^^^ rotr32 e 25
    let ch := (e &&& f) ^^^ (~~~e &&& g)
    let t1 := hh + bigS1 + ch + sha256K[i]! + w[i]!
    let bigS0 := rotr32 a 2 ^^^ rotr32 a 13 ^^^ rotr32 a 22
    let maj := (a &&& b) ^^^ (a &&& c) ^^^ (b &&& c)
    let t2 := bigS0 + maj
    hh := g
    g := f
    f := e
    e := d + t1
    d := c
    c := b
    b := a
    a := t1 + t2
  return #[h[0]! + a, h[1]! + b, h[2]! + c, h[3]! + d, h[4]! + e, h[5]! + f, h[6]! + g, h[7]! + hh]

/-- SHA-256 on a `ByteArray`; returns the 32-byte digest. -/
def sha256Bytes (msg : ByteArray) : ByteArray := Id.run do
  let m := sha256Pad msg
  let mut h := sha256H0
  for blk in [0:m.size / 64] do
    h := sha256Block h m (64 * blk)
  let mut out := ByteArray.emptyWithCapacity 32
  for i in [0:8] do
    let x := h[i]!
    out := (((out.push (x >>> 24).toUInt8).push (x >>> 16).toUInt8).push (x >>> 8).toUInt8).push x.toUInt8
  return out

/-- SHA-256 of `msg`; the result has length 32. -/
def sha256 (msg : List UInt8) : List UInt8 :=
  (sha256Bytes (ByteArray.mk msg.toArray)).data.toList

/-! ### Test vectors (expected values computed with Python `hashlib.sha256`) -/

#guard sha256K.size = 64 ∧ sha256H0.size = 8
#guard (sha256 []).length = 32
#guard sha256 [] = hexToBytes "e3b0c44298fc1c149afbf4c8996fb92427ae41e4649b934ca495991b7852b855"
#guard sha256 (strBytes "abc") = hexToBytes "ba7816bf8f01cfea414140de5dae2223b00361a396177a9cb410ff61f20015ad"
#guard sha256 (testMsg 0) = hexToBytes "e3b0c44298fc1c149afbf4c8996fb92427ae41e4649b934ca495991b7852b855"
#guard sha256 (testMsg 1) = hexToBytes "084fed08b978af4d7d196a7446a86b58009e636b611db16211b65a9aadff29c5"
#guard sha256 (testMsg 55) = hexToBytes "011611fea7df65f592aeefd3baab0fa563d88e59a8060ebae09e3e99d5d8c66f"
#guard sha256 (testMsg 56) = hexToBytes "a304b0e297bfd34b304721335d3791f95c8b9fe8ced4571a25d45bba65109684"
#guard sha256 (testMsg 57) = hexToBytes "f8246078703494e845635fb99543a547106b3418b95607ee05231a076d4b175f"
#guard sha256 (testMsg 63) = hexToBytes "72c766363446e4eb04cef3d4a668a2b400aaa179d08a3a90140de6e796f74b11"
#guard sha256 (testMsg 64) = hexToBytes "90d53c9cb55875e278567a0361c176cdc253208cfef8926ccc0b325a2c2c57f3"
#guard sha256 (testMsg 65) = hexToBytes "bce037b715d9f575ff39cfce1152f4057aa0f270a5e28d643dde5654c7f70102"
#guard sha256 (testMsg 111) = hexToBytes "166b4708d01b124ff34d3d0910c3cb751c5a6ddeb17fdda5ded4df5a350d539b"
#guard sha256 (testMsg 112) = hexToBytes "79d4757a1b93b62135819a08d9c27d3444d4816ebcc8b7473138c9bfcc434cb2"
#guard sha256 (testMsg 113) = hexToBytes "052c8828832e8de6b2641380c9924bead468047ec105cb4a74d93616c222a0b5"
#guard sha256 (testMsg 119) = hexToBytes "e5db6305cfff2aa7880f630180517f5cca6c4e18f7c69c6e0870d541b047484d"
#guard sha256 (testMsg 120) = hexToBytes "f85bad1f780f0eafaf48c9635a45787c0e24dab854e732b19311ce45c031773f"
#guard sha256 (testMsg 127) = hexToBytes "4e20bb5d18cb8288a4a673beac1ab480fab0c39cb9606a14f2a61c8131cccabf"
#guard sha256 (testMsg 128) = hexToBytes "7006ec908c0eb55ae888deab02ded176092f01a5fb4e87a5e8ae4e59f9c2ab86"
#guard sha256 (testMsg 129) = hexToBytes "fb4f9a12bc61d60c6488c76c07ef0a6243f4dd736ebc747454e270f2f266badf"
#guard sha256 (testMsg 135) = hexToBytes "ebf4873027c254a90a4f84477d9e25175fc3c3dc5ae1c75e16059ce638ae5c33"
#guard sha256 (testMsg 136) = hexToBytes "1f2ed57bfc1c6055c3a4f209f53a0f81b0bca22404ee71290566be28a3319bdd"
#guard sha256 (testMsg 137) = hexToBytes "356ec5d59e359758111feacf94c878d1dd5b4c26dc99a93178cb6225e1bcb11f"
#guard sha256 (testMsg 271) = hexToBytes "f9aba5bfcdd719fed7ff4fc294d3d0f135f94e6b8b8f2f5ccb2810d6b74c7588"
#guard sha256 (testMsg 272) = hexToBytes "c83155cd0623446aeb4ac4d8b515d1a9544c29042d21ef2b01574a1f2ea9ba8f"
#guard sha256 (testMsg 273) = hexToBytes "f7cd665ef691e99c6481d3618d6622eba9716c4272eae2801049318ff377c136"
#guard sha256 (testMsg 1000) = hexToBytes "26a8f52760347165abfd01cecfe5b3e501b4875dd43db2dcac7b52810e80b760"

end Frost.Ref
