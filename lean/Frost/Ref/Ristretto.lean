/-
Frost.Ref.Ristretto — ristretto255 (RFC 9496) on top of Ed25519, transcribed from
`sqrt_ratio_m1`, `ris_dec`, `ris_enc`, `ris_eq` of the validated Python prototype `ref.py`.

A ristretto255 element is an Ed25519 point modulo the 8-torsion (more precisely a coset
representative in the even subgroup); `risCanon` picks the canonical representative
`decode (encode P)` so that structural equality of `EPoint`s coincides with group equality.
-/
import Frost.Ref.Edwards

namespace Frost.Ref

/-- Prototype `INVSQRT_A_MINUS_D`. -/
def invSqrtAMinusD : Nat :=
  54469307008909316920995813868745141605393597292927456921205312896311721017578

/-- Prototype `isneg`: the low bit (of a reduced field element). -/
@[inline] def risIsNeg (x : Nat) : Bool := x &&& 1 == 1

/-- Prototype `cabs`: `(-x) % p if isneg(x) else x`. -/
def risAbs (x : Nat) : Nat := if risIsNeg x then negMod x p25 else x

/-- Prototype `sqrt_ratio_m1(u, v)` = `(was_square, |sqrt(u/v)| or |sqrt(i*u/v)|)`. -/
def sqrtRatioM1 (u v : Nat) : Bool × Nat :=
  let p := p25
  let v3 := v * v * v % p
  let v7 := v3 * v3 * v % p
  let r := u * v3 * powMod (u * v7) ((p - 5) / 8) p % p
  let chk := v * r * r % p
  let cs := chk == u % p
  let fl := chk == negMod u p
  let fli := chk == negMod (u * sqrtM1) p
  let r := if fl || fli then r * sqrtM1 % p else r
  (cs || fl, risAbs r)

/-- Prototype `ris_dec`: length 32, canonical (`s < p`) and non-negative `s`, then RFC 9496
decode; rejects non-square, negative `t`, `y = 0`. -/
def risDec (b : List UInt8) : Option EPoint :=
  if b.length != 32 then none
  else
    let p := p25
    let s := leToNat b
    if s >= p || risIsNeg s then none
    else
      let ss := s * s % p
      let u1 := subMod 1 ss p
      let u2 := (1 + ss) % p
      let u2s := u2 * u2 % p
      let v := subMod (negMod (d25 * u1 * u1) p) u2s p
      let (ok, ivs) := sqrtRatioM1 1 (v * u2s % p)
      let dx := ivs * u2 % p
      let dy := ivs * dx * v % p
      let x := risAbs (2 * s * dx % p)
      let y := u1 * dy % p
      let t := x * y % p
      if !ok || risIsNeg t || y == 0 then none
      else some ⟨x, y⟩

/-- Prototype `ris_enc` (with `z0 = 1`, `t0 = x0*y0`). -/
def risEnc (P : EPoint) : List UInt8 :=
  let p := p25
  let x0 := P.x; let y0 := P.y; let z0 := 1
  let t0 := x0 * y0 % p
  let u1 := (z0 + y0) * subMod z0 y0 p % p
  let u2 := x0 * y0 % p
  let ivs := (sqrtRatioM1 1 (u1 * u2 * u2 % p)).2
  let d1 := ivs * u1 % p
  let d2 := ivs * u2 % p
  let zinv := d1 * d2 * t0 % p
  let rot := risIsNeg (t0 * zinv % p)
  let x := if rot then y0 * sqrtM1 % p else x0
  let y := if rot then x0 * sqrtM1 % p else y0
  let dinv := if rot then d1 * invSqrtAMinusD % p else d2
  let y := if risIsNeg (x * zinv % p) then negMod y p else y
  natToLE (risAbs (dinv * subMod z0 y p % p)) 32

/-- Prototype `ris_eq`: `x1 y2 = y1 x2  or  y1 y2 = x1 x2` (mod p). -/
def risEq (P Q : EPoint) : Bool :=
  let p := p25
  subMod (P.x * Q.y) (P.y * Q.x) p == 0 || subMod (P.y * Q.y) (P.x * Q.x) p == 0

/-- Canonical representative of the ristretto255 class of `P` (so that structural equality
= group equality on canonical representatives). -/
def risCanon (P : EPoint) : EPoint := (risDec (risEnc P)).getD P

end Frost.Ref
