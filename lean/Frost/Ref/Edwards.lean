/-
Frost.Ref.Edwards — twisted Edwards curves a x^2 + y^2 = 1 + d x^2 y^2 over F_p
(Ed25519 and Ed448), transcribed from `class Edw`, `ed25_enc/ed25_dec`, `ed448_enc/ed448_dec`
of the validated Python prototype `ref.py`.

* `EPoint` is affine with identity `(0, 1)`; for coordinates reduced mod `p`, structural
  equality is equality of curve points.
* `EdwCurve.add` / `neg` are line-by-line transcriptions (affine; the law is complete on both
  curves because `a` is a square and `d` a non-square mod `p`).
* `EdwCurve.mul` does NOT reduce `k` mod `n` (exactly like the prototype: the decoders use
  `mul n P` as a torsion check).  It computes the same function as the prototype's affine
  double-and-add for on-curve inputs, but in extended projective coordinates using the
  homogenised form of the very same addition law, with a single inversion at the end.
  `EdwCurve.mulAffine` is the literal prototype loop, kept for cross-checking.
-/
import Frost.Ref.ModArith

namespace Frost.Ref

/-- Curve parameters.  `a`, `d` are stored reduced mod `p` (prototype: `a % p`, `d % p`). -/
structure EdwCurve where
  (p a d n gx gy : Nat)
deriving Repr

/-- Affine point; identity is `(0, 1)`. -/
structure EPoint where
  (x y : Nat)
deriving DecidableEq, Repr

instance : Inhabited EPoint := ⟨⟨0, 1⟩⟩

/-- Prototype `p25 = 2**255-19`. -/
def p25 : Nat := 2^255 - 19

/-- Prototype `d25 = -121665*inv(121666,p25) % p25` (literal value asserted in the prototype). -/
def d25 : Nat := 37095705934669439343138083508754565189542113879843219016388785533085940283555

/-- Prototype `L25`. -/
def L25 : Nat := 2^252 + 27742317777372353535851937790883648493

/-- Prototype `SQRT_M1 = pow(2,(p25-1)//4,p25)` (literal value asserted in the prototype). -/
def sqrtM1 : Nat := 19681161376707505956807079304988542015446066515923890162744021073123829784752

/-- Prototype `ED25`. -/
def ed25519 : EdwCurve :=
  { p := p25
    a := p25 - 1     -- (-1) % p
    d := d25
    n := L25
    gx := 15112221349535400772501151409588531511454012693041857206046113283949847762202
    gy := 46316835694926478169428394003475163141307993866256225615783033603165251855960 }

/-- Prototype `p448 = 2**448-2**224-1`. -/
def p448 : Nat := 2^448 - 2^224 - 1

/-- Prototype `L448`. -/
def L448 : Nat := 2^446 - 13818066809895115352007386748515426880336692474882178609894547503885

/-- Prototype `ED448`. -/
def ed448 : EdwCurve :=
  { p := p448
    a := 1
    d := p448 - 39081     -- (-39081) % p
    n := L448
    gx := 224580040295924300187604334099896036246789641632564134246125461686950415467406032909029192869357953282578032075146446173674602635247710
    gy := 298819210078481492676017930443930673437544040154080242095928241372331506189835876003536878655418784733982303233503462500531545062832660 }

/-- The base point. -/
def EdwCurve.gen (c : EdwCurve) : EPoint := ⟨c.gx, c.gy⟩

/-- The identity `(0, 1)` (the curve argument is only there for dot notation). -/
def EdwCurve.zero (_c : EdwCurve) : EPoint := ⟨0, 1⟩

/-- Affine addition, exactly the prototype's `Edw.add` (two inversions per call). -/
def EdwCurve.add (c : EdwCurve) (P Q : EPoint) : EPoint :=
  let p := c.p
  let x1 := P.x; let y1 := P.y; let x2 := Q.x; let y2 := Q.y
  let t := c.d * x1 * x2 * y1 * y2 % p
  ⟨(x1 * y2 + y1 * x2) * invMod (1 + t) p % p,
   subMod (y1 * y2) (c.a * x1 * x2) p * invMod (subMod 1 t p) p % p⟩

/-- Prototype `Edw.neg`. -/
def EdwCurve.neg (c : EdwCurve) (P : EPoint) : EPoint := ⟨negMod P.x c.p, P.y⟩

/-! ### Literal prototype scalar multiplication (slow; for cross-checks) -/

/-- Loop of the prototype's `Edw.mul` (right-to-left affine double-and-add). -/
def EdwCurve.mulAffineLoop (c : EdwCurve) : (fuel k : Nat) → (R P : EPoint) → EPoint
  | 0, _, R, _ => R
  | fuel + 1, k, R, P =>
    if k == 0 then R
    else
      let R' := if k % 2 == 1 then c.add R P else R
      mulAffineLoop c fuel (k / 2) R' (c.add P P)

/-- The prototype's `Edw.mul`, literally (`k` NOT reduced; affine double-and-add). -/
def EdwCurve.mulAffine (c : EdwCurve) (k : Nat) (P : EPoint) : EPoint :=
  c.mulAffineLoop (Nat.log2 k + 1) k ⟨0, 1⟩ P

/-! ### Fast scalar multiplication in extended coordinates -/

/-- Extended projective point `(X : Y : Z : T)` with `x = X/Z`, `y = Y/Z`, `T = XY/Z`.
Internal to `EdwCurve.mul`; coordinates always reduced mod `p`. -/
structure XPoint where
  (x y z t : Nat)

/-- Homogenised form of the affine law of `EdwCurve.add` (generic `a`, unified: also used for
doubling).  `X3/Z3 = (x1 y2 + y1 x2)/(1 + d x1 x2 y1 y2)`,
`Y3/Z3 = (y1 y2 - a x1 x2)/(1 - d x1 x2 y1 y2)`, `T3 Z3 = X3 Y3`. -/
def EdwCurve.xadd (c : EdwCurve) (P Q : XPoint) : XPoint :=
  let p := c.p
  let A := P.x * Q.x % p
  let B := P.y * Q.y % p
  let C := (c.d * P.t % p) * Q.t % p
  let D := P.z * Q.z % p
  let E := (P.x * Q.y + P.y * Q.x) % p
  let F := subMod D C p
  let G := (D + C) % p
  let H := subMod B (c.a * A) p
  ⟨E * F % p, G * H % p, F * G % p, E * H % p⟩

/-- Left-to-right double-and-add over bits `i-1 .. 0` of `k`. -/
def EdwCurve.xmulLoop (c : EdwCurve) (P : XPoint) (k : Nat) : (i : Nat) → XPoint → XPoint
  | 0, R => R
  | i + 1, R =>
    let R2 := c.xadd R R
    xmulLoop c P k i (if k.testBit i then c.xadd R2 P else R2)

/-- Scalar multiplication `k • P`, `k` NOT reduced mod `n` (as in the prototype).
Same function as the prototype's `Edw.mul` (`EdwCurve.mulAffine`) on on-curve inputs;
extended coordinates internally, one inversion at the end. -/
def EdwCurve.mul (c : EdwCurve) (k : Nat) (P : EPoint) : EPoint :=
  let p := c.p
  let P' : XPoint := ⟨P.x % p, P.y % p, 1 % p, P.x * P.y % p⟩
  let R := c.xmulLoop P' k (Nat.log2 k + 1) ⟨0, 1 % p, 1 % p, 0⟩
  let zi := invMod R.z p
  ⟨R.x * zi % p, R.y * zi % p⟩

/-! ### Ed25519 encoding -/

/-- Prototype `ed25_enc`: `(y | ((x&1)<<255))` as 32 little-endian bytes.  The identity is
encodable at this level. -/
def ed25519Enc (P : EPoint) : List UInt8 :=
  natToLE (P.y ||| ((P.x &&& 1) <<< 255)) 32

/-- Prototype `ed25_dec`: dalek-style decompression (`y` reduced mod `p`, no sign check when
`x = 0`), then reject the identity, then the torsion check `mul L P = (0,1)`. -/
def ed25519Dec (b : List UInt8) : Option EPoint :=
  if b.length != 32 then none
  else
    let p := p25
    let v := leToNat b
    let sign := v >>> 255
    let y := (v &&& ((1 <<< 255) - 1)) % p
    let u := subMod (y * y) 1 p
    let w := (d25 * y * y + 1) % p
    let x := u * powMod w 3 p * powMod (u * powMod w 7 p) ((p - 5) / 8) p % p
    let wxx := w * x * x % p
    let xo : Option Nat :=
      if wxx == u then some x
      else if wxx == negMod u p then some (x * sqrtM1 % p)
      else none
    match xo with
    | none => none
    | some x =>
      let x := if (x &&& 1) != sign then negMod x p else x
      let P : EPoint := ⟨x, y⟩
      if P == ⟨0, 1⟩ then none
      else if ed25519.mul L25 P != ⟨0, 1⟩ then none
      else some P

/-! ### Ed448 encoding -/

/-- Prototype `ed448_enc`: `y` as 56 little-endian bytes, then the byte `(x&1)<<7`. -/
def ed448Enc (P : EPoint) : List UInt8 :=
  natToLE P.y 56 ++ [UInt8.ofNat ((P.x &&& 1) <<< 7)]

/-- Prototype `ed448_dec`: length 57, low 7 bits of byte 56 clear, `y < p`, RFC 8032
decompression (rejecting `x = 0` with sign bit), reject identity, torsion check
`mul L P = (0,1)`, and canonical re-encoding check. -/
def ed448Dec (b : List UInt8) : Option EPoint :=
  if b.length != 57 then none
  else
    let p := p448
    let b56 := (b.getD 56 0).toNat
    if b56 &&& 0x7f != 0 then none
    else
      let sign := b56 >>> 7
      let y := leToNat (b.take 56)
      if y >= p then none
      else
        let u := subMod (y * y) 1 p
        let w := negMod (39081 * y * y + 1) p
        let x := powMod u 3 p * w * powMod (powMod u 5 p * powMod w 3 p) ((p - 3) / 4) p % p
        if w * x * x % p != u then none
        else if x == 0 && sign != 0 then none
        else
          let x := if (x &&& 1) != sign then negMod x p else x
          let P : EPoint := ⟨x, y⟩
          if P == ⟨0, 1⟩ || ed448.mul L448 P != ⟨0, 1⟩ then none
          else if ed448Enc P != b then none
          else some P

end Frost.Ref
