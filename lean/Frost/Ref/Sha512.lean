/-
SHA-512 (FIPS 180-4), pure Lean 4, no imports beyond core `Init` (plus the test helpers in
`Frost.Ref.Hex`, used only by the `#guard` checks at the end of the file).

Round constants are transcribed mechanically from `notes/ref_prototype/hash_consts.json`
(computed there from their definitions and validated against `hashlib`).
-/
import Frost.Ref.Hex

namespace Frost.Ref

/-- SHA-512 round constants `K[0..79]`. -/
def sha512K : Array UInt64 := #[
  0x428a2f98d728ae22, 0x7137449123ef65cd, 0xb5c0fbcfec4d3b2f, 0xe9b5dba58189dbbc,
  0x3956c25bf348b538, 0x59f111f1b605d019, 0x923f82a4af194f9b, 0xab1c5ed5da6d8118,
  0xd807aa98a3030242, 0x12835b0145706fbe, 0x243185be4ee4b28c, 0x550c7dc3d5ffb4e2,
  0x72be5d74f27b896f, 0x80deb1fe3b1696b1, 0x9bdc06a725c71235, 0xc19bf174cf692694,
  0xe49b69c19ef14ad2, 0xefbe4786384f25e3, 0x0fc19dc68b8cd5b5, 0x240ca1cc77ac9c65,
  0x2de92c6f592b0275, 0x4a7484aa6ea6e483, 0x5cb0a9dcbd41fbd4, 0x76f988da831153b5,
  0x983e5152ee66dfab, 0xa831c66d2db43210, 0xb00327c898fb213f, 0xbf597fc7beef0ee4,
  0xc6e00bf33da88fc2, 0xd5a79147930aa725, 0x06ca6351e003826f, 0x142929670a0e6e70,
  0x27b70a8546d22ffc, 0x2e1b21385c26c926, 0x4d2c6dfc5ac42aed, 0x53380d139d95b3df,
  0x650a73548baf63de, 0x766a0abb3c77b2a8, 0x81c2c92e47edaee6, 0x92722c851482353b,
  0xa2bfe8a14cf10364, 0xa81a664bbc423001, 0xc24b8b70d0f89791, 0xc76c51a30654be30,
  0xd192e819d6ef5218, 0xd69906245565a910, 0xf40e35855771202a, 0x106aa07032bbd1b8,
  0x19a4c116b8d2d0c8, 0x1e376c085141ab53, 0x2748774cdf8eeb99, 0x34b0bcb5e19b48a8,
  0x391c0cb3c5c95a63, 0x4ed8aa4ae3418acb, 0x5b9cca4f7763e373, 0x682e6ff3d6b2b8a3,
  0x748f82ee5defb2fc, 0x78a5636f43172f60, 0x84c87814a1f0ab72, 0x8cc702081a6439ec,
  0x90befffa23631e28, 0xa4506cebde82bde9, 0xbef9a3f7b2c67915, 0xc67178f2e372532b,
  0xca273eceea26619c, 0xd186b8c721c0c207, 0xeada7dd6cde0eb1e, 0xf57d4f7fee6ed178,
  0x06f067aa72176fba, 0x0a637dc5a2c898a6, 0x113f9804bef90dae, 0x1b710b35131c471b,
  0x28db77f523047d84, 0x32caab7b40c72493, 0x3c9ebe0a15c9bebc, 0x431d67c49c100d4c,
  0x4cc5d4becb3e42b6, 0x597f299cfc657e2a, 0x5fcb6fab3ad6faec, 0x6c44198c4a475817
]

/-- SHA-512 initial hash value `H(0)`. -/
def sha512H0 : Array UInt64 := #[
  0x6a09e667f3bcc908, 0xbb67ae8584caa73b, 0x3c6ef372fe94f82b, 0xa54ff53a5f1d36f1,
  0x510e527fade682d1, 0x9b05688c2b3e6c1f, 0x1f83d9abfb41bd6b, 0x5be0cd19137e2179
]

/-- Rotate a 64-bit word right by `n` bits, `0 < n < 64`. -/
@[inline] def rotr64 (x n : UInt64) : UInt64 := (x >>> n) ||| (x <<< (64 - n))

/-- Merkle–Damgård padding: `msg ‖ 0x80 ‖ 0x00* ‖ bitlen(msg)` as a 128-bit big-endian integer,
    padded to a multiple of 128 bytes. -/
def sha512Pad (msg : ByteArray) : ByteArray := Id.run do
  let len := msg.size
  let zeros := (128 - (len + 17) % 128) % 128
  let bitLen := 8 * len
  let mut m := msg.push 0x80
  for _ in [0:zeros] do
    m := m.push 0
  for i in [0:16] do
    m := m.push (UInt8.ofNat (bitLen >>> (8 * (15 - i))))
  return m

/-- Big-endian 64-bit word at byte offset `j` of `m`. -/
@[inline] def beWord64 (m : ByteArray) (j : Nat) : UInt64 :=
  ((m.get! j).toUInt64 <<< 56) ||| ((m.get! (j + 1)).toUInt64 <<< 48) |||
  ((m.get! (j + 2)).toUInt64 <<< 40) ||| ((m.get! (j + 3)).toUInt64 <<< 32) |||
  ((m.get! (j + 4)).toUInt64 <<< 24) ||| ((m.get! (j + 5)).toUInt64 <<< 16) |||
  ((m.get! (j + 6)).toUInt64 <<< 8) ||| (m.get! (j + 7)).toUInt64

/-- One application of the SHA-512 compression function to the 128-byte block of `m`
    starting at byte offset `off`, with chaining value `h` (8 words). -/
def sha512Block (h : Array UInt64) (m : ByteArray) (off : Nat) : Array UInt64 := Id.run do
  -- message schedule
  let mut w : Array UInt64 := Array.replicate 80 0
  for i in [0:16] do
    w := w.set! i (beWord64 m (off + 8 * i))
  for i in [16:80] do
    let w15 := w[i - 15]!
    let w2 := w[i - 2]!
    let s0 := rotr64 w15 1 ^^^ rotr64 w15 8 ^^^ (w15 >>> 7)
    let s1 := rotr64 w2 19 ^^^ rotr64 w2 61 ^^^ (w2 >>> 6)
    w := w.set! i (w[i - 16]! + s0 + w[i - 7]! + s1)
  -- 80 rounds
  let mut a := h[0]!
  let mut b := h[1]!
  let mut c := h[2]!
  let mut d := h[3]!
  let mut e := h[4]!
  let mut f := h[5]!
  let mut g := h[6]!
  let mut hh := h[7]!
  for i in [0:80] do
    let bigS1 := rotr64 e 14 ^^^ rotr64 e 18 ^^^ rotr64 e 41
    let ch := (e &&& f) ^^^ (~~~e &&& g)
    let t1 := hh + bigS1 + ch + sha512K[i]! + w[i]!
    let bigS0 := rotr64 a 28 ^^^ rotr64 a 34 ^^^ rotr64 a 39
    let maj := (a &&& b) ^^^ (a &&& c) ^^^ (b &&& c)
    let t2 := bigS0 + maj
    hh := g
    g := f
    f := e
    e := d + t1
    d := c
    c := b
    b := a
    a := t1 + t2
  return #[h[0]! + a, h[1]! + b, h[2]! + c, h[3]! + d, h[4]! + e, h[5]! + f, h[6]! + g, h[7]! + hh]

/-- SHA-512 on a `ByteArray`; returns the 64-byte digest. -/
def sha512Bytes (msg : ByteArray) : ByteArray := Id.run do
  let m := sha512Pad msg
  let mut h := sha512H0
  for blk in [0:m.size / 128] do
    h := sha512Block h m (128 * blk)
  let mut out := ByteArray.emptyWithCapacity 64
  for i in [0:8] do
    let x := h[i]!
    for k in [0:8] do
      out := out.push (x >>> (UInt64.ofNat (8 * (7 - k)))).toUInt8
  return out

/-- SHA-512 of `msg`; the result has length 64. -/
def sha512 (msg : List UInt8) : List UInt8 :=
  (sha512Bytes (ByteArray.mk msg.toArray)).data.toList

/-! ### Test vectors (expected values computed with Python `hashlib.sha512`) -/

#guard sha512K.size = 80 ∧ sha512H0.size = 8
#guard (sha512 []).length = 64
#guard sha512 (strBytes "abc") = hexToBytes "ddaf35a193617abacc417349ae20413112e6fa4e89a97ea20a9eeee64b55d39a2192992a274fc1a836ba3c23a3feebbd454d4423643ce80e2a9ac94fa54ca49f"
#guard sha512 (testMsg 0) = hexToBytes "cf83e1357eefb8bdf1542850d66d8007d620e4050b5715dc83f4a921d36ce9ce47d0d13c5d85f2b0ff8318d2877eec2f63b931bd47417a81a538327af927da3e"
#guard sha512 (testMsg 1) = hexToBytes "e45bf5817ddf94aa2f7a407071f0eedc6beb98f768b4cd33d1176d44d1563a45a5d7212290eb7670c6786b13591aedac86478993895e8b24e612014abaa6ba04"
#guard sha512 (testMsg 55) = hexToBytes "eddd8c40ebb08302759ffdf62294b657f19aecb7a372a3982591bdb59b9da0b3097bfcf04e6b338fb69bba6f9373f855f52ae704a7c8b6e50a713b5e3f99559b"
#guard sha512 (testMsg 56) = hexToBytes "095eddbbf276c3a610aeb7f064820ebbda5d2726f67572e50248f56d83c83f4813e9a10a03999a870b925af06c3aa6eeef24a7fd22b28331dfd30c0ead5ea59b"
#guard sha512 (testMsg 57) = hexToBytes "e179c695d884e216bde2818e3215197dcedd4b8de27c7455d0eff149c6b183aefe9141701519f6153709bc2fb26c2d7210be69a28a3973b17c5923010a3d675c"
#guard sha512 (testMsg 63) = hexToBytes "94ff8e8f9cd44a901992efcf3d2b7dd4ca79794e50b660817702572ffe6b88ca82fc10a6d793d3b80b3cc2af2949918d1d0c269b73954121a9a82a3544bc68a0"
#guard sha512 (testMsg 64) = hexToBytes "b93e292762bcbf31d09eaff4c01c4c45140da8e0d77c10f397935b629891401e6a49440fb31ca3080593862b78025900629969597596162ee4b508e2f7ba2a49"
#guard sha512 (testMsg 65) = hexToBytes "22d341803379c114bb8fe4254c17d6f8e3ff8a726c4260538131f4f6ab11868b73fb91ba842d9972afa8ce08491b0e0ab0f6e64df1dc446af4e906dc9a3009e3"
#guard sha512 (testMsg 111) = hexToBytes "526b625a04dcce38859d11128cd09eeb4f3662819df8118016b3f19d51ecbfbc67004dd7349e8b342b42506b9c379f8c6f6ec35f59458c269f6da98860515798"
#guard sha512 (testMsg 112) = hexToBytes "428f3daf0c8c2ef45c6b842c4d4df9f323441b62e37de040c8086badbd86ca3adbed4101eef2674e65490876f156341c22d3032d48d73afb2d7f1913125d49e0"
#guard sha512 (testMsg 113) = hexToBytes "0dd4875616f3a96f8032732c5f97406ce13f42f04d71df1d15a31743e1026f2a53755f88c86270db1b776d51d3883b37a1d78e3ca5e5101ad6fb31ac5bd3695c"
#guard sha512 (testMsg 119) = hexToBytes "9cdb347dc57ccfa3b17fcb6b5d949058a3a57db1d23d72412059c01ab9a8fd0bf495d002f1dce23f714e82a61a1cdec45ba31feb3326b9ef2125f19663fc301c"
#guard sha512 (testMsg 120) = hexToBytes "b97eccb564cc20fcdecf434494dd5567a9bdf370e93b35742c7a4befb932c72291642f150c2f102960d56a7119944be3d17312a10a1a2eda0785bfdf1330e56f"
#guard sha512 (testMsg 127) = hexToBytes "d4c3dac2acb7b56da7a276fcafff76d33c30274b57d58550c0e3b7cb92bd75f61438d74dcde70608b141f6a7e9d8a6f0d4e53cc77df4d9a468a13765c1253cb4"
#guard sha512 (testMsg 128) = hexToBytes "79b8da25e8bba398d819994e5b4a27fe2ecfa69c491f370aacdb9e486faff73feedab8a02544d9fa98d9fe6a80104c0a4611afac472badde7bed2e2751627738"
#guard sha512 (testMsg 129) = hexToBytes "7ca9b8a73b5ffec5f08936d1fd4d471845ebf3daf30724ed67b9271676494b68366c829944bacb21a364af187043b58e773dffdc3855c1f32f4ca8466d4dc088"
#guard sha512 (testMsg 135) = hexToBytes "17a632ff162479929db28b32a15d1e3d2512ec2b405d1ea7d5df129610485ea9c76c6158ca1bc9a2eef3f20c13541792782d46b20e2f0b6fa7071f1577a8744a"
#guard sha512 (testMsg 136) = hexToBytes "db59250b40d533517afcdc19b04c34ed594a01bd04a4f3a330ca6f5a7645cc180dc14a425fd48b400dc8d9bdc49727645822101502a60569e4ba14f37172a6df"
#guard sha512 (testMsg 137) = hexToBytes "b80c443713ccb6104cc9788cc156e6db12697771c826617c6a93b55f37da7e207635da70efbc1758353552c7419ef090f5cde7e1a6724233d0d8badd42bf0b42"
#guard sha512 (testMsg 271) = hexToBytes "940167a384fbfbfc7fadc37350c30df278076e7479b6bf24e09a2fed202b7e2fb9745083613ffef1f8bcda7f23edc4435a2d305caee3ff2cfe24f77c6b2c7bb0"
#guard sha512 (testMsg 272) = hexToBytes "1e41774036dcf1fd034ef5294db4ca49c0663b436487c095e9c5cd6dcb3087ae74d175480040038864fd3671f60f222360b61322f64cccb6234ec49e066c2c31"
#guard sha512 (testMsg 273) = hexToBytes "bb83363fdabfb853ebac811ce01ab23d16882605938d90f458b2651faddd33d907cfd25796d48558d4b54c9f1e86ce2481c66767a65d5bdffa20b5305f6a2a58"
#guard sha512 (testMsg 1000) = hexToBytes "9ada8be9e62da5fa484ce797ba486248df8ee72506daf48587a73f96cb539664927c37774ac2e25dd4d52dcfc027e62cefb74d30a205a35412f77c512d907b3a"

end Frost.Ref
