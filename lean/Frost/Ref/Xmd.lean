/-
`expand_message_xmd` (RFC 9380 §5.3.1) instantiated with SHA-256
(`b_in_bytes = 32`, `s_in_bytes = 64`).  Pure Lean 4; imports only `Frost.Ref.Sha256`.

Preconditions (not checked): `dst.length ≤ 255` and `lenInBytes ≤ 255 * 32`.
Outside them the function is still total, but the length/counter bytes wrap modulo 256 and
the result is not the RFC's (the RFC aborts in those cases).
-/
import Frost.Ref.Sha256

namespace Frost.Ref

/-- Bytewise xor of two byte strings (truncated to the shorter one). -/
def xorBytes (a b : List UInt8) : List UInt8 := List.zipWith (· ^^^ ·) a b

/-- The blocks `b_i ‖ b_(i+1) ‖ …` (`n` of them) of `expand_message_xmd`, given `b_0`, the
    previous block `prev = b_(i-1)` and `DST_prime`:
    `b_i = H(strxor(b_0, b_(i-1)) ‖ I2OSP(i, 1) ‖ DST_prime)`. -/
def xmdBlocks (b0 dstPrime : List UInt8) : (n i : Nat) → (prev : List UInt8) → List UInt8
  | 0, _, _ => []
  | n + 1, i, prev =>
    let bi := sha256 (xorBytes b0 prev ++ [UInt8.ofNat i] ++ dstPrime)
    bi ++ xmdBlocks b0 dstPrime n (i + 1) bi

/-- `expand_message_xmd(msg, DST, len_in_bytes)` with `H = SHA-256` (RFC 9380 §5.3.1). -/
def expandMessageXmdSha256 (msg dst : List UInt8) (lenInBytes : Nat) : List UInt8 :=
  let ell := (lenInBytes + 31) / 32
  let dstPrime := dst ++ [UInt8.ofNat dst.length]
  let zPad : List UInt8 := List.replicate 64 0
  let lIBStr : List UInt8 := [UInt8.ofNat (lenInBytes / 256), UInt8.ofNat lenInBytes]
  let b0 := sha256 (zPad ++ msg ++ lIBStr ++ [0] ++ dstPrime)
  -- b_1 = H(b_0 ‖ 1 ‖ DST_prime) is the general step with `b_0 xor 0^32` (i.e. `prev = 0^32`).
  (xmdBlocks b0 dstPrime ell 1 (List.replicate 32 0)).take lenInBytes

/-! ### Test vectors (RFC 9380 appendix K.1, and values computed with a direct Python/`hashlib`
transcription of RFC 9380 §5.3.1) -/

-- RFC 9380 appendix K.1 (expand_message_xmd, SHA-256), DST = "QUUX-V01-CS02-with-expander-SHA256-128"
#guard expandMessageXmdSha256 (strBytes "") (strBytes "QUUX-V01-CS02-with-expander-SHA256-128") 32 = hexToBytes "68a985b87eb6b46952128911f2a4412bbc302a9d759667f87f7a21d803f07235"
#guard expandMessageXmdSha256 (strBytes "") (strBytes "QUUX-V01-CS02-with-expander-SHA256-128") 128 = hexToBytes "af84c27ccfd45d41914fdff5df25293e221afc53d8ad2ac06d5e3e29485dadbee0d121587713a3e0dd4d5e69e93eb7cd4f5df4cd103e188cf60cb02edc3edf18eda8576c412b18ffb658e3dd6ec849469b979d444cf7b26911a08e63cf31f9dcc541708d3491184472c2c29bb749d4286b004ceb5ee6b9a7fa5b646c993f0ced"
#guard expandMessageXmdSha256 (strBytes "abc") (strBytes "QUUX-V01-CS02-with-expander-SHA256-128") 32 = hexToBytes "d8ccab23b5985ccea865c6c97b6e5b8350e794e603b4b97902f53a8a0d605615"
#guard expandMessageXmdSha256 (strBytes "abc") (strBytes "QUUX-V01-CS02-with-expander-SHA256-128") 128 = hexToBytes "abba86a6129e366fc877aab32fc4ffc70120d8996c88aee2fe4b32d6c7b6437a647e6c3163d40b76a73cf6a5674ef1d890f95b664ee0afa5359a5c4e07985635bbecbac65d747d3d2da7ec2b8221b17b0ca9dc8a1ac1c07ea6a1e60583e2cb00058e77b7b72a298425cd1b941ad4ec65e8afc50303a22c0f99b0509b4c895f40"
#guard expandMessageXmdSha256 (strBytes "abcdef0123456789") (strBytes "QUUX-V01-CS02-with-expander-SHA256-128") 32 = hexToBytes "eff31487c770a893cfb36f912fbfcbff40d5661771ca4b2cb4eafe524333f5c1"
#guard expandMessageXmdSha256 (strBytes "abcdef0123456789") (strBytes "QUUX-V01-CS02-with-expander-SHA256-128") 128 = hexToBytes "ef904a29bffc4cf9ee82832451c946ac3c8f8058ae97d8d629831a74c6572bd9ebd0df635cd1f208e2038e760c4994984ce73f0d55ea9f22af83ba4734569d4bc95e18350f740c07eef653cbb9f87910d833751825f0ebefa1abe5420bb52be14cf489b37fe1a72f7de2d10be453b2c9d9eb20c7e3f6edc5a60629178d9478df"
#guard expandMessageXmdSha256 (strBytes "q128_" ++ List.replicate 128 113) (strBytes "QUUX-V01-CS02-with-expander-SHA256-128") 32 = hexToBytes "b23a1d2b4d97b2ef7785562a7e8bac7eed54ed6e97e29aa51bfe3f12ddad1ff9"
#guard expandMessageXmdSha256 (strBytes "q128_" ++ List.replicate 128 113) (strBytes "QUUX-V01-CS02-with-expander-SHA256-128") 128 = hexToBytes "80be107d0884f0d881bb460322f0443d38bd222db8bd0b0a5312a6fedb49c1bbd88fd75d8b9a09486c60123dfa1d73c1cc3169761b17476d3c6b7cbbd727acd0e2c942f4dd96ae3da5de368d26b32286e32de7e5a8cb2949f866a0b80c58116b29fa7fabb3ea7d520ee603e0c25bcaf0b9a5e92ec6a1fe4e0391d1cdbce8c68a"
#guard expandMessageXmdSha256 (strBytes "a512_" ++ List.replicate 512 97) (strBytes "QUUX-V01-CS02-with-expander-SHA256-128") 32 = hexToBytes "4623227bcc01293b8c130bf771da8c298dede7383243dc0993d2d94823958c4c"
#guard expandMessageXmdSha256 (strBytes "a512_" ++ List.replicate 512 97) (strBytes "QUUX-V01-CS02-with-expander-SHA256-128") 128 = hexToBytes "546aff5444b5b79aa6148bd81728704c32decb73a3ba76e9e75885cad9def1d06d6792f8a7d12794e90efed817d96920d728896a4510864370c207f99bd4a608ea121700ef01ed879745ee3e4ceef777eda6d9e5e38b90c86ea6fb0b36504ba4a45d22e86f6db5dd43d98a294bebb9125d5b794e9d2a81181066eb954966a487"
-- hashlib-derived vectors: two DSTs, lengths 32/48/96, block-boundary message lengths
#guard expandMessageXmdSha256 (strBytes "abc") (strBytes "FROST-secp256k1-SHA256-v1rho") 32 = hexToBytes "4160424280eb9b161dd67cc249022846152bfbb115a5474908a5c0cf44187482"
#guard expandMessageXmdSha256 (testMsg 0) (strBytes "FROST-secp256k1-SHA256-v1rho") 32 = hexToBytes "6866709da3645dbde5e12f9e435bdbcf874d4554c605365e1fdfe11a2b0c74dd"
#guard expandMessageXmdSha256 (testMsg 55) (strBytes "FROST-secp256k1-SHA256-v1rho") 32 = hexToBytes "22079fd59f7c631bcce450dcdd406ba15ceebab3397f21f1be8ea430b23d2e88"
#guard expandMessageXmdSha256 (testMsg 56) (strBytes "FROST-secp256k1-SHA256-v1rho") 32 = hexToBytes "b13c9909c0b4c5fbdce800e3745dab2d70d8c764070d1845c680426ffa21a046"
#guard expandMessageXmdSha256 (testMsg 64) (strBytes "FROST-secp256k1-SHA256-v1rho") 32 = hexToBytes "56da064a4823e0152ed2db992f634d7a3015c5e0a3b0adb88b1d48ee98f08d34"
#guard expandMessageXmdSha256 (testMsg 111) (strBytes "FROST-secp256k1-SHA256-v1rho") 32 = hexToBytes "3737b3ba2594301dbb31a20c50ecbce4099f069f4a1ac98bbebfe5fef2897ffe"
#guard expandMessageXmdSha256 (testMsg 112) (strBytes "FROST-secp256k1-SHA256-v1rho") 32 = hexToBytes "bfc61634bc830499f5b755caec39c91abfc9b5e515795f1c7b133208ddc8830d"
#guard expandMessageXmdSha256 (testMsg 128) (strBytes "FROST-secp256k1-SHA256-v1rho") 32 = hexToBytes "4becba16b7d462208023e7285237713377de6ae5b328f157bde686a622703c8c"
#guard expandMessageXmdSha256 (testMsg 135) (strBytes "FROST-secp256k1-SHA256-v1rho") 32 = hexToBytes "3fc030d98d964002c033f96879bda7ed806732d23f77ba450289bea5a212752a"
#guard expandMessageXmdSha256 (testMsg 136) (strBytes "FROST-secp256k1-SHA256-v1rho") 32 = hexToBytes "1556bb69fbf4e10e6c1288cf08421b46cfbd97e9d1ecf9bd982b5fd9ec56232e"
#guard expandMessageXmdSha256 (testMsg 137) (strBytes "FROST-secp256k1-SHA256-v1rho") 32 = hexToBytes "576597f60d74dd94c7ea0c73eb6cf7fb589d095d4e103d6e5c3b9676a2db023d"
#guard expandMessageXmdSha256 (testMsg 1000) (strBytes "FROST-secp256k1-SHA256-v1rho") 32 = hexToBytes "8d2931b6767d52b0c0b19105ef23b29428d12513c8558998111e14a0f657621b"
#guard expandMessageXmdSha256 (strBytes "abc") (strBytes "FROST-secp256k1-SHA256-v1rho") 48 = hexToBytes "5dc11224b86b87cdf939969d834e5698299db356fe3905d42f016d4ff59d5fdd1b39eddb3a218a411b0da2f651e9bc20"
#guard expandMessageXmdSha256 (testMsg 0) (strBytes "FROST-secp256k1-SHA256-v1rho") 48 = hexToBytes "d1b4fee88694b666a2840ad0448318c11e599038e9a742c111758f6afbc54f3f1615c2f022fe9c956964ed947a169b12"
#guard expandMessageXmdSha256 (testMsg 55) (strBytes "FROST-secp256k1-SHA256-v1rho") 48 = hexToBytes "6dc8c46db7410507e59433715d62935a3dbba78f3197eed03045e5734350fa772dbeb0e7fb3fcdb860f522a77e33f04a"
#guard expandMessageXmdSha256 (testMsg 56) (strBytes "FROST-secp256k1-SHA256-v1rho") 48 = hexToBytes "c5bb6fa4047b8c92536edc307aa0b7060eb86e021c7241d39a0f540fc6bc468db5ca3aaba0f06e1f8b9a563be4b925ca"
#guard expandMessageXmdSha256 (testMsg 64) (strBytes "FROST-secp256k1-SHA256-v1rho") 48 = hexToBytes "b5372a6a2ceb33c091e6c5fea5fab130c17afc493c02c1d3a944caec5d4281e2e93a0715dab08b176401e5a4985bf807"
#guard expandMessageXmdSha256 (testMsg 111) (strBytes "FROST-secp256k1-SHA256-v1rho") 48 = hexToBytes "f29502478ad42bdfab4ba588ad17b03992beb76ed960db97976340b8a7ae96041810e36164069d36ec0fbf9fcd5582f9"
#guard expandMessageXmdSha256 (testMsg 112) (strBytes "FROST-secp256k1-SHA256-v1rho") 48 = hexToBytes "a41c4536c20d5d3d15dd87d30bca691daae58e15e6ad74fac4574779cd23959ebbf9601aaa1fd6ce499c075061c48ee0"
#guard expandMessageXmdSha256 (testMsg 128) (strBytes "FROST-secp256k1-SHA256-v1rho") 48 = hexToBytes "4882530c6908ca41fd0ff0551c24164ba54c6cc78ef0f6b7dc960ab52bcebb0ad5619544e17d4f59e170c98057011aa6"
#guard expandMessageXmdSha256 (testMsg 135) (strBytes "FROST-secp256k1-SHA256-v1rho") 48 = hexToBytes "5155d40d2cd8b1c8bf7b2dc641853b18dc7974961bdafd3f7796d841c79366e5114475e6a445c89236350825a2f85eda"
#guard expandMessageXmdSha256 (testMsg 136) (strBytes "FROST-secp256k1-SHA256-v1rho") 48 = hexToBytes "e30e1c13a65f402a26f502d353dbc022eac256affa6935ab8b3371422ee7be95d7469d717044c6f4103717a4d54baa6b"
#guard expandMessageXmdSha256 (testMsg 137) (strBytes "FROST-secp256k1-SHA256-v1rho") 48 = hexToBytes "cc1d4f53c036e4f6b40678db5fd7dd4cd2662f6e24f573f8fc4c527ce4cc3809f06012eabe4288d9649f84127e35bbad"
#guard expandMessageXmdSha256 (testMsg 1000) (strBytes "FROST-secp256k1-SHA256-v1rho") 48 = hexToBytes "a17f002531fc341f16dc12cea6f0bba61cf9dc3debaf4342b90d414252891c90455c7ecd51d42f4ddf46480999a71108"
#guard expandMessageXmdSha256 (strBytes "abc") (strBytes "FROST-secp256k1-SHA256-v1rho") 96 = hexToBytes "bff36e3effe579580adad51e215f3fc6e44db08860a62fdbbd3e212fdc197dcb8db4c34adb028557ce3b2d2037d516c04824249d85aef9c9d122b09e11f8105af9e47c987a691812ce4eeb5e5a72b72bccbfeca7cb73d6cf76004db9ffb0028f"
#guard expandMessageXmdSha256 (testMsg 0) (strBytes "FROST-secp256k1-SHA256-v1rho") 96 = hexToBytes "2bd81b3d8eac570c44ee9dcb990c9e97364dc63863fcccdf5dd453e0b97d59540844f3d061e88bf75a81365254e0cdde19b7ccf888682fb4cefc113601ed434e295971164396e98f12a765655378f55ab97d46b34775818ae1c3fd92576fe138"
#guard expandMessageXmdSha256 (testMsg 55) (strBytes "FROST-secp256k1-SHA256-v1rho") 96 = hexToBytes "ca80f95ce79cbca7b8d50ebfd7f73e32b29e67bde9ce0ec15f70c942cf323c59065b620aa11679c2dc73b1d0c869752fdfaf833774ec2a4186e5fb8049ea919ac873590ced8774cbd825e288960113772060ed5c8a1971ad83fbfe11b015e72e"
#guard expandMessageXmdSha256 (testMsg 56) (strBytes "FROST-secp256k1-SHA256-v1rho") 96 = hexToBytes "5911be147420a06df6c2b025807903e0bf4d67c62ff67b0f1564759ee83e9f6e034b46304c74b95b86478df4e31d910433644b47e743699084b783ec5d08454c8510d6b37957519c00f4c6ffb9567b216f5cb12100172eea0b09bed7ffd53fd9"
#guard expandMessageXmdSha256 (testMsg 64) (strBytes "FROST-secp256k1-SHA256-v1rho") 96 = hexToBytes "29ab5f186296e43cf04fc665249c7af5c1278b7d263bb942f00524de00b676a7efbea6bff94a163bc988f0c786c1f2e4ecfa4602c2206356b9f6f68747efd59efc90e852dd163a21ed88e44bd952f8af2dc8da701d77d66d35a65cbed36b2203"
#guard expandMessageXmdSha256 (testMsg 111) (strBytes "FROST-secp256k1-SHA256-v1rho") 96 = hexToBytes "f1faae392ff2cda667c3ae3c91ca333496d1103c3d371715bdd4fee5a9db5d055b757691d23b08313f6b9a6fe63b9680184b7082e4a2d2fbcaff7cfeda7e2f50fc9eecb616ed834fedb2fd716f46e89db05de422271f489a73830f48b4691b78"
#guard expandMessageXmdSha256 (testMsg 112) (strBytes "FROST-secp256k1-SHA256-v1rho") 96 = hexToBytes "388364e8ba564177f9d3fd1af1b9da3460be5d7313be1e6a516ae0bee8a540bc51ccedb80eab1593a8636372de5762fe32b4eab76399c30cf4ea4cdca549105d9290fdde2fb10c4fec589cfe6602d72915232d0e44258b53ab195396ff2c1d3c"
#guard expandMessageXmdSha256 (testMsg 128) (strBytes "FROST-secp256k1-SHA256-v1rho") 96 = hexToBytes "d08e838374356184ff4379676c3e754a2635176e54e2bf24488ea712f22a8620611b945f79edf8fe8b02185608581d75fb3ae9ae1b28e47d2ee8a003e29375fe159d7b79be5c7ed7b742785fa41d36c0587a8b3371b43e53e0a7abae49603780"
#guard expandMessageXmdSha256 (testMsg 135) (strBytes "FROST-secp256k1-SHA256-v1rho") 96 = hexToBytes "fb1f80423bd01cefb3c0cb52a06004560ff20a2920a5dd5aff4e17bb6e801536fda9a15a027b8f56cea9e2fdff3750d79ce861e571725b361d7d42c2a288835ecc01c31a27190adf0efd884f01f7ab4ef7ca2a6960cbf1bc0f14a37db6037c5b"
#guard expandMessageXmdSha256 (testMsg 136) (strBytes "FROST-secp256k1-SHA256-v1rho") 96 = hexToBytes "b593a1166d122c6afa24f177372387b6e92fffc5def105bbd72195d703b2bc46c7ae9e01435d1df37e441a0434beb5ba1ea84949e766be3e383a190da970ad6837cff4b1202057fbd0c41b6b76bf974129f96270856e80ba5b2cdd6bb80c7cbd"
#guard expandMessageXmdSha256 (testMsg 137) (strBytes "FROST-secp256k1-SHA256-v1rho") 96 = hexToBytes "d91a58e9b791e9993a67d14a70d563ba8531b78c4db1cbab50ddb2d7fe77239907a609dc43a59c438377a40237d890089a825fc6dc45a7a9a16e5c11bac6686b0e181d65253369dd3fba79a93c9f28023a71ae10dff5a555381b86a9c698f4e1"
#guard expandMessageXmdSha256 (testMsg 1000) (strBytes "FROST-secp256k1-SHA256-v1rho") 96 = hexToBytes "52fa71b98160273d23904c643dc9fbe2a3c58c8aa32f456e4eb5793c612de6bce465e5289bef8b911adc4241428efcf80a4a841236ec11d842913e68512cdd03135a1430d614f66b847235a87dcb02aec839e8436d51c345ca78a6aa5bd941fc"
#guard expandMessageXmdSha256 (strBytes "abc") (strBytes "FROST-P256-SHA256-v1nonce") 32 = hexToBytes "9a2cbbe46aabfe04589567807c83972437109a952841d4216ccf039968bace8a"
#guard expandMessageXmdSha256 (testMsg 0) (strBytes "FROST-P256-SHA256-v1nonce") 32 = hexToBytes "f8ef1edf8d58d82d434c5d88689398ac00200feb93c30bccf2328c6441b854fa"
#guard expandMessageXmdSha256 (testMsg 55) (strBytes "FROST-P256-SHA256-v1nonce") 32 = hexToBytes "f819a929606bdffa3f2b32865aa78ce30a35685d61c4756cd68b005abf154699"
#guard expandMessageXmdSha256 (testMsg 56) (strBytes "FROST-P256-SHA256-v1nonce") 32 = hexToBytes "a43af7ae1b522acd1eae6df7bd38342ccc60294c23c465b9acaff7ee7018e6ed"
#guard expandMessageXmdSha256 (testMsg 64) (strBytes "FROST-P256-SHA256-v1nonce") 32 = hexToBytes "326b53a447ce79b0c7596e6a1828b274cedf7665e494b445ed580b704b897e8a"
#guard expandMessageXmdSha256 (testMsg 111) (strBytes "FROST-P256-SHA256-v1nonce") 32 = hexToBytes "051a6d36a203f39d985c05892f179b8423100c20da6ed2b682d102601a5a2944"
#guard expandMessageXmdSha256 (testMsg 112) (strBytes "FROST-P256-SHA256-v1nonce") 32 = hexToBytes "4578a0b34fe109b54dace33206104a7bc9153478585286059b7c992e53747a6c"
#guard expandMessageXmdSha256 (testMsg 128) (strBytes "FROST-P256-SHA256-v1nonce") 32 = hexToBytes "43bd73b64278387e60e10913308ce46b5bd354c17b61f051ae5a1ca883386f09"
#guard expandMessageXmdSha256 (testMsg 135) (strBytes "FROST-P256-SHA256-v1nonce") 32 = hexToBytes "57fd35a34347494734d50f368e2054bb3a9dab3100dc0d0ded598d778dd2e7b2"
#guard expandMessageXmdSha256 (testMsg 136) (strBytes "FROST-P256-SHA256-v1nonce") 32 = hexToBytes "69836184f9c00b18643b57a33fe2c1dcb01415f88f34d66c7f53e5ab2c1fe24d"
#guard expandMessageXmdSha256 (testMsg 137) (strBytes "FROST-P256-SHA256-v1nonce") 32 = hexToBytes "7bfb0c82c4816cc1313fa8096f7f63eff4a182e6c40bb255344eecbc6f3e38ab"
#guard expandMessageXmdSha256 (testMsg 1000) (strBytes "FROST-P256-SHA256-v1nonce") 32 = hexToBytes "dd0d8ba7f88ea9d11441c2d9af8b096008c1dc4194ef3145313a2089d42fada2"
#guard expandMessageXmdSha256 (strBytes "abc") (strBytes "FROST-P256-SHA256-v1nonce") 48 = hexToBytes "4b1c576ac9c6e8b3509ef488f5223240dbdb7687d92adb05fac27a2ecb355e98e2065720c0b7e113520367b7c34b8775"
#guard expandMessageXmdSha256 (testMsg 0) (strBytes "FROST-P256-SHA256-v1nonce") 48 = hexToBytes "89ce86ffc1d69929e316bd9ce25a0c8d6292dfc933188a03dba0f0b5ea737df8d8933bd73fe32d09f10550a7781ad2be"
#guard expandMessageXmdSha256 (testMsg 55) (strBytes "FROST-P256-SHA256-v1nonce") 48 = hexToBytes "6b93eb12213a333766d1a12a367861688e142e94230ec86a0f1cd20f2c21042b6b7a64ea1f78390565fbe8731ba7f08b"
#guard expandMessageXmdSha256 (testMsg 56) (strBytes "FROST-P256-SHA256-v1nonce") 48 = hexToBytes "f58371219532702af275eb3a501c8d5c92046d35779ee9f66cb9b3d8512a77bc301067d8234bf2f6497aa3a6039fd63a"
#guard expandMessageXmdSha256 (testMsg 64) (strBytes "FROST-P256-SHA256-v1nonce") 48 = hexToBytes "f2290d76d6a862ac950766e2b1257de7b08659d5e06b6fdbb077f85a54528bc9cab9984bb0a428347d6cb25f1efd800a"
#guard expandMessageXmdSha256 (testMsg 111) (strBytes "FROST-P256-SHA256-v1nonce") 48 = hexToBytes "c8af4abf1165479aa0adfd12d0d5b90b3311d538feff12e7fe9a515b79b235f7c4f63dbf0d81a371f8dfe88aa91592d1"
#guard expandMessageXmdSha256 (testMsg 112) (strBytes "FROST-P256-SHA256-v1nonce") 48 = hexToBytes "ac6671afe098e97f837faeb30b34c5176dbd767707472d33d3f94ef53c036a70c5a13acbb5ac36060605e28bc4816bb8"
#guard expandMessageXmdSha256 (testMsg 128) (strBytes "FROST-P256-SHA256-v1nonce") 48 = hexToBytes "af08cda13fd5adba76fcc8fb891620ded708cb57be0a15e37c7bbf1de548734288096793de269497503e2f6b093461be"
#guard expandMessageXmdSha256 (testMsg 135) (strBytes "FROST-P256-SHA256-v1nonce") 48 = hexToBytes "298928860766e1229f54757827ebb48b1c40a14cd0a591b9746d0deadf3cf30247464a99be51fbecbf05ecded49a5a4f"
#guard expandMessageXmdSha256 (testMsg 136) (strBytes "FROST-P256-SHA256-v1nonce") 48 = hexToBytes "4a0dfb6df2d3051d592b1f1a047e8549c2a02fd5bb88ffa8a9db1810984909c58056e5bfddbf2244f3fc8b76c7a32557"
#guard expandMessageXmdSha256 (testMsg 137) (strBytes "FROST-P256-SHA256-v1nonce") 48 = hexToBytes "716eaedc5cb7aba16928e1b6eda25c9027f3363f79fbee0e6a4d734fa08028116e61196526fd56edb04c4522c358e157"
#guard expandMessageXmdSha256 (testMsg 1000) (strBytes "FROST-P256-SHA256-v1nonce") 48 = hexToBytes "8a106acac88835073934f24e388fa83fc035895564f7a0c852fbab2133e7a91e0b5a7890ec870c78ff3a55448e2fee31"
#guard expandMessageXmdSha256 (strBytes "abc") (strBytes "FROST-P256-SHA256-v1nonce") 96 = hexToBytes "cb8be582206162d8392d66710a53a763a8b80639f71affa217d1dc3eb416cc1c59ec296789c86cad0cd8eae0f54a1f89f6d03640c9c091af1f95a53cfa3e4a3bc960b5172e2a29e3403809ac0544a48cc25ea97a6086ed7a6b8e8c59c78139ec"
#guard expandMessageXmdSha256 (testMsg 0) (strBytes "FROST-P256-SHA256-v1nonce") 96 = hexToBytes "1f59735c3b6ca85b65db72a5f48327c9d9c31efd262f5f8eda5a0cbf933ea63f51acde5aeabdc14705825835c9b7c0f86833884b4b95501c392550cd7bcbe4716177ec8eacde4dbb7e9e1cb90208b8c6e100dd55c2a8cb0308f6e243511eef80"
#guard expandMessageXmdSha256 (testMsg 55) (strBytes "FROST-P256-SHA256-v1nonce") 96 = hexToBytes "98612818170bc67d7b2b365d86ef71ded307473a73733be808413cda17fff5bce0d9fcf6ff166d31837d0a56cda1c51b2fd0382f3dd01e5bf4f57538440f40c710bd5f52171b565b45f7aa00ef9ec6acd5b8bc711f9c79111b097f16a530d419"
#guard expandMessageXmdSha256 (testMsg 56) (strBytes "FROST-P256-SHA256-v1nonce") 96 = hexToBytes "749ad22b12f97e144856a0ad3b07b1009a5282262519083fdd936c893b894b8f2a8976dfe25a8fb75f145932dffaa6a8d007f22f92f95f529ce47f39bd7c9591cdac997c8214c843440a958b80c5b8937d888dfdd0e61f04ec2597b35ed803e7"
#guard expandMessageXmdSha256 (testMsg 64) (strBytes "FROST-P256-SHA256-v1nonce") 96 = hexToBytes "cf35dd6fa342655eb8dc13da0388fad1679882982c2c41abb612c35b30a2805195d4326d6517b708d4e4863f8c24178257eba7698dcbdd24740b512cd84ddfbf74ae2eff64d5cfe4a80e58dfa2be89c1beb48ca40ad336612a23cb4f84fc51f8"
#guard expandMessageXmdSha256 (testMsg 111) (strBytes "FROST-P256-SHA256-v1nonce") 96 = hexToBytes "e518ee3b4caa0e6f5299fe8cc75df4ae1253ae572e6ad2c42424dbf45514bb39e54a693276d805030b6ced24b033f50a492e61b86608d863bc4d96f7f807757c090331f9ee135d2d0d35af75dd45574324b50af2a65f86fbe8620af0c4556667"
#guard expandMessageXmdSha256 (testMsg 112) (strBytes "FROST-P256-SHA256-v1nonce") 96 = hexToBytes "48d4b3410cb39a7f7144643d2a4c5246e9dd67b7f3e24dde29dba87c80f61c08781020f67756bcd00ea16bb8646c2dbddc4b40718bb4b782114d346bce2c1ae4c7bf6db01097697e1b774e57b73fbdd279f576405bd30e29b1ccc41629ffcfda"
#guard expandMessageXmdSha256 (testMsg 128) (strBytes "FROST-P256-SHA256-v1nonce") 96 = hexToBytes "e16222f4c09787e22ab213f8a23abf17255a0a8b6e0b4a92bfb3ea5b88b66f7911ed3e7cc37df03bc130022496217ad84f4a0dcbb5fcf8666ba028cb8425a10e279ecadd06c98b57813beb9ab991b3187d4f7fa92990071017c9209815ea7d89"
#guard expandMessageXmdSha256 (testMsg 135) (strBytes "FROST-P256-SHA256-v1nonce") 96 = hexToBytes "21606acaa29cc7db7fe6bfdb9fbd27c1cad01d2a201fccab18f3e9d4dbf7f25cefb3400524e0876e96f788dadf50006e06112eb1ea4986ff3d504a5130e28b3bb23ce261a05f748d0dfe8cedccf70b0ed5ba48ce9447adc4929edd2b2fc6155e"
#guard expandMessageXmdSha256 (testMsg 136) (strBytes "FROST-P256-SHA256-v1nonce") 96 = hexToBytes "62433f68d037349cfd862614fc3f83cd9189357d0657f55a9c5305cf89e259246776c3eba92de906871f86ffe1a6c7211295bb46f6d34980db347ba9226ec03ac29d43f9e605c29541e8cc733c3a9d0257be9ee309faffee50e267d72fce56fb"
#guard expandMessageXmdSha256 (testMsg 137) (strBytes "FROST-P256-SHA256-v1nonce") 96 = hexToBytes "533ab69340bc41e7a8787ee39bd48e7d55ddd9677a720880c5c5b21acfe3a051f054a17794c8ed75c1c0ce10984511570eb1141e66a65803b22e1a06d93e0e2805e214f758cdf80e66d33e7016e4d52de1070953b5e968497bdd152fd69a2f3a"
#guard expandMessageXmdSha256 (testMsg 1000) (strBytes "FROST-P256-SHA256-v1nonce") 96 = hexToBytes "980687ec5a2cb8097f972f8bac76feb1ecf41c7ae5637620c71367e1bac98d7c4a2b2d58c204c2599d1cd46d44e93dc6c8a329db86e58e7c0aaa4f2f21e3db0c81d62a88c885563d7b2242e0d80f9fee706fd5b6562c4c191a91df74155dac78"
-- edge cases: empty output, one byte, empty DST, 255-byte DST, maximal length 255*32 (compared by SHA-256 digest)
#guard expandMessageXmdSha256 (testMsg 10) (strBytes "FROST-secp256k1-SHA256-v1rho") 0 = []
#guard expandMessageXmdSha256 (testMsg 10) (strBytes "FROST-secp256k1-SHA256-v1rho") 1 = hexToBytes "85"
#guard expandMessageXmdSha256 (testMsg 10) [] 33 = hexToBytes "2917e40d2568006452d823fbfa020ff8ccd6cab2aa1ecd1694cf6e1dd1c53e1e5e"
#guard expandMessageXmdSha256 (testMsg 10) (testMsg 255) 65 = hexToBytes "cc86c1a436219716edbe939459eadff4b670b9a81a6ac3349300df234a9ae0741125305b75ba70c6d5362d1d43a4ad1fb34ee1e6029e09aaf77c26ae6a0746cbd5"
#guard (expandMessageXmdSha256 (testMsg 10) (strBytes "FROST-P256-SHA256-v1nonce") 8160).length = 8160
#guard sha256 (expandMessageXmdSha256 (testMsg 10) (strBytes "FROST-P256-SHA256-v1nonce") 8160) = hexToBytes "695c4c4dfd471b281f263b82157d2bc2c6f4d480f49448e7359a1131d2789172"

end Frost.Ref
