/-
  Frost.Ref.Suites — the six real ciphersuites as instances of the model's `Base`/`Suite`
  records, built from the from-scratch reference arithmetic (Frost.Ref.{Weierstrass,Edwards,
  Ristretto}) and hashes (Frost.Ref.{Sha256,Sha512,Keccak,Xmd}).  The *same* model functions
  the theorems are about thus run on real 32/33/57-byte values.
-/
import Frost.Ref.Toy
import Frost.Ref.ModArith
import Frost.Ref.Weierstrass
import Frost.Ref.Edwards
import Frost.Ref.Ristretto
import Frost.Ref.Sha256
import Frost.Ref.Sha512
import Frost.Ref.Keccak
import Frost.Ref.Xmd

namespace Frost.Ref
open Frost

/-! ### element types (canonical representatives: structural equality = group equality) -/

structure WE (c : WeiCurve) where
  pt : WPoint
  deriving DecidableEq

structure EE (c : EdwCurve) where
  pt : EPoint
  deriving DecidableEq

structure RisE where
  pt : EPoint
  deriving DecidableEq

instance (c : WeiCurve) : Add (WE c) := ⟨fun a b => ⟨c.add a.pt b.pt⟩⟩
instance (c : WeiCurve) : Neg (WE c) := ⟨fun a => ⟨c.neg a.pt⟩⟩
instance (c : WeiCurve) : Sub (WE c) := ⟨fun a b => ⟨c.add a.pt (c.neg b.pt)⟩⟩
instance (c : WeiCurve) : Zero (WE c) := ⟨⟨.inf⟩⟩
instance (c : WeiCurve) : SMul (Fq c.n) (WE c) := ⟨fun s e => ⟨c.mul s.val e.pt⟩⟩

instance (c : EdwCurve) : Add (EE c) := ⟨fun a b => ⟨c.add a.pt b.pt⟩⟩
instance (c : EdwCurve) : Neg (EE c) := ⟨fun a => ⟨c.neg a.pt⟩⟩
instance (c : EdwCurve) : Sub (EE c) := ⟨fun a b => ⟨c.add a.pt (c.neg b.pt)⟩⟩
instance (c : EdwCurve) : Zero (EE c) := ⟨⟨c.zero⟩⟩
instance (c : EdwCurve) : SMul (Fq c.n) (EE c) := ⟨fun s e => ⟨c.mul (s.val % c.n) e.pt⟩⟩

instance : Add RisE := ⟨fun a b => ⟨risCanon (ed25519.add a.pt b.pt)⟩⟩
instance : Neg RisE := ⟨fun a => ⟨risCanon (ed25519.neg a.pt)⟩⟩
instance : Sub RisE := ⟨fun a b => ⟨risCanon (ed25519.add a.pt (ed25519.neg b.pt))⟩⟩
instance : Zero RisE := ⟨⟨risCanon ⟨0, 1⟩⟩⟩
instance : SMul (Fq L25) RisE := ⟨fun s e => ⟨risCanon (ed25519.mul (s.val % L25) e.pt)⟩⟩

/-! ### hashes -/

def wideLE (q : Nat) (digest : Bytes) : Fq q := ⟨leToNat digest % q⟩

def h2f (q : Nat) (ctx tag m : Bytes) : Fq q :=
  ⟨beToNat (expandMessageXmdSha256 m (ctx ++ tag) 48) % q⟩

/-- `Field::random` of k256 / p256: 32-byte big-endian draws, repeated until `< n` -/
def randomRejection (q : Nat) : Nat → Tape → Option (Fq q × Tape)
  | 0, _ => none
  | fuel + 1, t =>
    match t.draw 32 with
    | none => none
    | some (b, t') => if beToNat b < q then some (⟨beToNat b⟩, t') else randomRejection q fuel t'

def randomWide (q n : Nat) (t : Tape) : Option (Fq q × Tape) :=
  match t.draw n with
  | none => none
  | some (b, t') => some (⟨leToNat b % q⟩, t')

def decLE (q len : Nat) (b : Bytes) : Option (Fq q) :=
  if b.length = len ∧ leToNat b < q then some ⟨leToNat b⟩ else none

def decBE (q len : Nat) (b : Bytes) : Option (Fq q) :=
  if b.length = len ∧ beToNat b < q then some ⟨beToNat b⟩ else none

/-! ### Weierstrass suites (P-256, secp256k1) -/

def weiBase (c : WeiCurve) (ctxS : String) : Base (Fq c.n) (WE c) :=
  let ctx := strBytes ctxS
  { ID := ctx
    G := ⟨c.gen⟩
    cofactor := ⟨1⟩
    H1 := h2f c.n ctx (strBytes "rho")
    H2 := h2f c.n ctx (strBytes "chal")
    H3 := h2f c.n ctx (strBytes "nonce")
    H4 := fun m => sha256 (ctx ++ strBytes "msg" ++ m)
    H5 := fun m => sha256 (ctx ++ strBytes "com" ++ m)
    HDKG := fun m => some (h2f c.n ctx (strBytes "dkg") m)
    HID := fun m => some (h2f c.n ctx (strBytes "id") m)
    Hrand := fun m => some (h2f c.n ctx (strBytes "randomizer") m)
    encScalar := fun s => natToBE s.val 32
    decScalar := decBE c.n 32
    scalarLen := 32
    leBytes := fun s => natToLE s.val 32
    encElem := fun e => c.enc e.pt
    decElem := fun b =>
      match c.dec b with
      | some P => .ok ⟨P⟩
      | none => .error .GroupMalformedElement
    elemLen := 33
    randomScalar := fun t => randomRejection c.n (t.length / 32 + 1) t
    idLt := fun a b => a.val < b.val }

def p256Suite : Suite (Fq p256.n) (WE p256) := Suite.ofBase (weiBase p256 "FROST-P256-SHA256-v1")
def secp256k1Suite : Suite (Fq secp256k1.n) (WE secp256k1) :=
  Suite.ofBase (weiBase secp256k1 "FROST-secp256k1-SHA256-v1")

/-! ### Edwards suites -/

/-- dalek's `sqrt_ratio_i(u, w)` for `u = y² − 1`, `w = d y² + 1`: a candidate `x` with
    `w x² = u`, if there is one -/
def ed25519Root (y : Nat) : Option Nat :=
  let p := p25
  let u := subMod (y * y) 1 p
  let w := (d25 * y * y + 1) % p
  let x := u * powMod w 3 p * powMod (u * powMod w 7 p) ((p - 5) / 8) p % p
  let wxx := w * x * x % p
  if wxx == u then some x
  else if wxx == negMod u p then some (x * sqrtM1 % p)
  else none

/-- choose the root with the requested sign bit (no check when `x = 0`), then the checks of
    frost-ed25519's `Group::deserialize`: identity, torsion -/
def ed25519Finish (sign x y : Nat) : Except (Err (Fq ed25519.n)) (EE ed25519) :=
  let x := if (x &&& 1) != sign then negMod x p25 else x
  let P : EPoint := ⟨x, y⟩
  if P == ⟨0, 1⟩ then .error .GroupInvalidIdentityElement
  else if ed25519.mul L25 P != ⟨0, 1⟩ then .error .GroupInvalidNonPrimeOrderElement
  else .ok ⟨P⟩

/-- decoder with the error variants of frost-ed25519's `Group::deserialize` -/
def ed25519DecE (b : Bytes) : Except (Err (Fq ed25519.n)) (EE ed25519) :=
  if b.length != 32 then .error .GroupMalformedElement
  else
    let v := leToNat b
    match ed25519Root ((v &&& ((1 <<< 255) - 1)) % p25) with
    | none => .error .GroupMalformedElement
    | some x => ed25519Finish (v >>> 255) x ((v &&& ((1 <<< 255) - 1)) % p25)

def ed25519Base : Base (Fq ed25519.n) (EE ed25519) :=
  let ctx := strBytes "FROST-ED25519-SHA512-v1"
  let hs := fun (tag : String) (m : Bytes) => wideLE ed25519.n (sha512 (ctx ++ strBytes tag ++ m))
  { ID := ctx
    G := ⟨ed25519.gen⟩
    cofactor := ⟨1⟩
    H1 := hs "rho"
    H2 := fun m => wideLE ed25519.n (sha512 m)
    H3 := hs "nonce"
    H4 := fun m => sha512 (ctx ++ strBytes "msg" ++ m)
    H5 := fun m => sha512 (ctx ++ strBytes "com" ++ m)
    HDKG := fun m => some (hs "dkg" m)
    HID := fun m => some (hs "id" m)
    Hrand := fun m => some (hs "randomizer" m)
    encScalar := fun s => natToLE s.val 32
    decScalar := decLE ed25519.n 32
    scalarLen := 32
    leBytes := fun s => natToLE s.val 32
    encElem := fun e => if e.pt = ⟨0, 1⟩ then none else some (ed25519Enc e.pt)
    decElem := ed25519DecE
    elemLen := 32
    randomScalar := randomWide ed25519.n 64
    idLt := fun a b => a.val < b.val }

def ed25519Suite : Suite (Fq ed25519.n) (EE ed25519) := Suite.ofBase ed25519Base

/-- `Ed448Group::deserialize`: `decompress_unchecked` (the 7 low bits of the last byte and a
    non-reduced `y` are not looked at here), then identity, torsion and — last — the canonical
    re-encoding check, in the code's order (which fixes the error variant). -/
def ed448Decompress (b : Bytes) : Option EPoint :=
  let p := p448
  let sign := (b.getD 56 0).toNat >>> 7
  let y := leToNat (b.take 56) % p
  let u := subMod (y * y) 1 p
  let w := negMod (39081 * y * y + 1) p
  let x := powMod u 3 p * w * powMod (powMod u 5 p * powMod w 3 p) ((p - 3) / 4) p % p
  if w * x * x % p != u then none
  else some ⟨if (x &&& 1) != sign then negMod x p else x, y⟩

/-- the checks after decompression, in the code's order -/
def ed448Finish (P : EPoint) (b : Bytes) : Except (Err (Fq ed448.n)) (EE ed448) :=
  if P == ⟨0, 1⟩ then .error .GroupInvalidIdentityElement
  else if ed448.mul L448 P != ⟨0, 1⟩ then .error .GroupInvalidNonPrimeOrderElement
  else if ed448Enc P != b then .error .GroupMalformedElement
  else .ok ⟨P⟩

def ed448DecE (b : Bytes) : Except (Err (Fq ed448.n)) (EE ed448) :=
  if b.length != 57 then .error .GroupMalformedElement
  else
    match ed448Decompress b with
    | none => .error .GroupMalformedElement
    | some P => ed448Finish P b

def ed448Base : Base (Fq ed448.n) (EE ed448) :=
  let ctx := strBytes "FROST-ED448-SHAKE256-v1"
  let hs := fun (tag : String) (m : Bytes) => wideLE ed448.n (shake256 (ctx ++ strBytes tag ++ m) 114)
  { ID := ctx
    G := ⟨ed448.gen⟩
    cofactor := ⟨1⟩
    H1 := hs "rho"
    H2 := fun m => wideLE ed448.n (shake256 (strBytes "SigEd448" ++ [0, 0] ++ m) 114)
    H3 := hs "nonce"
    H4 := fun m => shake256 (ctx ++ strBytes "msg" ++ m) 114
    H5 := fun m => shake256 (ctx ++ strBytes "com" ++ m) 114
    HDKG := fun m => some (hs "dkg" m)
    HID := fun m => some (hs "id" m)
    Hrand := fun m => some (hs "randomizer" m)
    encScalar := fun s => natToLE s.val 57
    decScalar := decLE ed448.n 57
    scalarLen := 57
    leBytes := fun s => natToLE s.val 57
    encElem := fun e => if e.pt = ⟨0, 1⟩ then none else some (ed448Enc e.pt)
    decElem := ed448DecE
    elemLen := 57
    randomScalar := randomWide ed448.n 114
    idLt := fun a b => a.val < b.val }

def ed448Suite : Suite (Fq ed448.n) (EE ed448) := Suite.ofBase ed448Base

def ristrettoBase : Base (Fq L25) RisE :=
  let ctx := strBytes "FROST-RISTRETTO255-SHA512-v1"
  let hs := fun (tag : String) (m : Bytes) => wideLE L25 (sha512 (ctx ++ strBytes tag ++ m))
  { ID := ctx
    G := ⟨risCanon ed25519.gen⟩
    cofactor := ⟨1⟩
    H1 := hs "rho"
    H2 := hs "chal"
    H3 := hs "nonce"
    H4 := fun m => sha512 (ctx ++ strBytes "msg" ++ m)
    H5 := fun m => sha512 (ctx ++ strBytes "com" ++ m)
    HDKG := fun m => some (hs "dkg" m)
    HID := fun m => some (hs "id" m)
    Hrand := fun m => some (hs "randomizer" m)
    encScalar := fun s => natToLE s.val 32
    decScalar := decLE L25 32
    scalarLen := 32
    leBytes := fun s => natToLE s.val 32
    encElem := fun e =>
      let b := risEnc e.pt
      if b = List.replicate 32 0 then none else some b
    decElem := fun b =>
      match risDec b with
      | some P => if b = List.replicate 32 0 then .error .GroupInvalidIdentityElement else .ok ⟨P⟩
      | none => .error .GroupMalformedElement
    elemLen := 32
    randomScalar := randomWide L25 64
    idLt := fun a b => a.val < b.val }

def ristrettoSuite : Suite (Fq L25) RisE := Suite.ofBase ristrettoBase

end Frost.Ref
