/-
CRC-32 (IEEE 802.3 / zlib / PNG): reflected, polynomial 0xEDB88320, initial value and final
xor 0xFFFFFFFF.  Pure Lean 4, no imports beyond core `Init` (plus the test helpers in
`Frost.Ref.Hex`, used only by the `#guard` checks at the end of the file).
-/
import Frost.Ref.Hex

namespace Frost.Ref

/-- The reflected CRC-32 polynomial. -/
def crc32Poly : UInt32 := 0xEDB88320

/-- One bit-step of the reflected CRC shift register. -/
@[inline] def crc32Shift (c : UInt32) : UInt32 :=
  if c &&& 1 = 1 then (c >>> 1) ^^^ crc32Poly else c >>> 1

/-- Feed one byte into the CRC register (eight bit-steps). -/
def crc32Byte (c : UInt32) (b : UInt8) : UInt32 :=
  let c := c ^^^ b.toUInt32
  crc32Shift (crc32Shift (crc32Shift (crc32Shift (crc32Shift (crc32Shift (crc32Shift (crc32Shift c)))))))

/-- CRC-32 of `msg` (a left fold over the bytes; no intermediate buffers are needed). -/
def crc32 (msg : List UInt8) : UInt32 :=
  (msg.foldl crc32Byte 0xFFFFFFFF) ^^^ 0xFFFFFFFF

/-! ### Test vectors (expected values computed with Python `zlib.crc32`) -/

#guard crc32 [] = 0
#guard crc32 (strBytes "123456789") = 0xCBF43926
#guard crc32 (strBytes "abc") = 0x352441C2
#guard crc32 (testMsg 0) = 0x00000000
#guard crc32 (testMsg 1) = 0x4B0BBE37
#guard crc32 (testMsg 55) = 0x8B3C251B
#guard crc32 (testMsg 56) = 0x41802C35
#guard crc32 (testMsg 57) = 0xEE408B70
#guard crc32 (testMsg 63) = 0xB97F92C5
#guard crc32 (testMsg 64) = 0x27B45448
#guard crc32 (testMsg 65) = 0xC924FEA2
#guard crc32 (testMsg 111) = 0x2EA2C67F
#guard crc32 (testMsg 112) = 0x434821DC
#guard crc32 (testMsg 113) = 0x4925651C
#guard crc32 (testMsg 119) = 0xE0C1F7EA
#guard crc32 (testMsg 120) = 0x50EADABB
#guard crc32 (testMsg 127) = 0x8E203ADE
#guard crc32 (testMsg 128) = 0x2135BEFF
#guard crc32 (testMsg 129) = 0xE79672C9
#guard crc32 (testMsg 135) = 0x649E8DBA
#guard crc32 (testMsg 136) = 0xC3677A5C
#guard crc32 (testMsg 137) = 0xE9AFA83F
#guard crc32 (testMsg 271) = 0x961E6DDB
#guard crc32 (testMsg 272) = 0x812762D0
#guard crc32 (testMsg 273) = 0x46E7F36B
#guard crc32 (testMsg 1000) = 0xAE280F90

end Frost.Ref
