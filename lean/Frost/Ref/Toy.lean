/-
  Frost.Ref.Toy — two toy ciphersuites: the additive group of Z_q acting on
  itself (`q = 2^31-1`, little-endian; `q = 65537`, big-endian), hashes = FNV-1a
  64 reduced mod q.  The Rust harness implements the same `Ciphersuite`
  (harness/src/toy.rs), so frost-core's *generic* code runs on it unchanged.
  The small fields make "negligible" events (zero nonce, identity group
  commitment, colliding binding factors) actually happen.
-/
import Frost.Model.Sign
import Frost.Ref.Hex

namespace Frost.Ref

/-- integers mod `q` (scalars) -/
structure Fq (q : Nat) where
  val : Nat
  deriving DecidableEq, Repr

/-- the additive group Z_q (elements) -/
structure Gq (q : Nat) where
  val : Nat
  deriving DecidableEq, Repr

namespace Fq
variable {q : Nat}

def powMod (q b : Nat) : Nat → Nat → Nat → Nat
  | 0, _, acc => acc
  | fuel + 1, e, acc =>
    if e = 0 then acc
    else powMod q (b * b % q) fuel (e / 2) (if e % 2 = 1 then acc * b % q else acc)

instance : Add (Fq q) := ⟨fun a b => ⟨(a.val + b.val) % q⟩⟩
instance : Sub (Fq q) := ⟨fun a b => ⟨(a.val + (q - b.val % q)) % q⟩⟩
instance : Neg (Fq q) := ⟨fun a => ⟨(q - a.val % q) % q⟩⟩
instance : Mul (Fq q) := ⟨fun a b => ⟨(a.val * b.val) % q⟩⟩
instance : Zero (Fq q) := ⟨⟨0⟩⟩
instance : One (Fq q) := ⟨⟨1 % q⟩⟩
instance : Inv (Fq q) := ⟨fun a => ⟨powMod q (a.val % q) 4096 (q - 2) (1 % q)⟩⟩
def ofNat (n : Nat) : Fq q := ⟨n % q⟩
end Fq

namespace Gq
variable {q : Nat}
instance : Add (Gq q) := ⟨fun a b => ⟨(a.val + b.val) % q⟩⟩
instance : Sub (Gq q) := ⟨fun a b => ⟨(a.val + (q - b.val % q)) % q⟩⟩
instance : Neg (Gq q) := ⟨fun a => ⟨(q - a.val % q) % q⟩⟩
instance : Zero (Gq q) := ⟨⟨0⟩⟩
instance : SMul (Fq q) (Gq q) := ⟨fun s e => ⟨(s.val * e.val) % q⟩⟩
end Gq

/-- FNV-1a, 64 bit -/
def fnv1a (m : Bytes) : UInt64 :=
  m.foldl (fun h b => (h ^^^ b.toUInt64) * 0x100000001b3) 0xcbf29ce484222325

def toyNatToLE : Nat → Nat → Bytes
  | 0, _ => []
  | len + 1, n => UInt8.ofNat (n % 256) :: toyNatToLE len (n / 256)

def toyNatToBE (len n : Nat) : Bytes := (toyNatToLE len n).reverse

def beNat (b : Bytes) : Nat := leNat b.reverse

/-- toy hash to 64 bits with a one-byte domain tag after the context string -/
def toyHash64 (ctx : Bytes) (tag : UInt8) (m : Bytes) : Nat :=
  (fnv1a (ctx ++ [tag] ++ m)).toNat

/-- The toy `Base`: `q` prime, generator `g`, `be` selects big-endian encodings. -/
def toyBase (q g : Nat) (be : Bool) (name : String) : Base (Fq q) (Gq q) :=
  let ctx := strBytes name
  let enc : Nat → Bytes := fun n => if be then toyNatToBE 4 n else toyNatToLE 4 n
  let dec : Bytes → Nat := fun b => if be then beNat b else leNat b
  let hs : UInt8 → Bytes → Fq q := fun tag m => ⟨toyHash64 ctx tag m % q⟩
  let hb : UInt8 → Bytes → Bytes := fun tag m => toyNatToLE 8 (toyHash64 ctx tag m)
  { ID := ctx
    G := ⟨g⟩
    cofactor := ⟨1⟩
    H1 := hs 1
    H2 := hs 2
    H3 := hs 3
    H4 := hb 4
    H5 := hb 5
    HDKG := fun m => some (hs 6 m)
    HID := fun m => some (hs 7 m)
    Hrand := fun m => some (hs 8 m)
    encScalar := fun s => enc s.val
    decScalar := fun b => if b.length = 4 ∧ dec b < q then some ⟨dec b⟩ else none
    scalarLen := 4
    leBytes := fun s => toyNatToLE 4 s.val
    encElem := fun e => if e.val = 0 then none else some (enc e.val)
    decElem := fun b =>
      if b.length = 4 ∧ dec b < q then
        (if dec b = 0 then .error .GroupInvalidIdentityElement else .ok ⟨dec b⟩)
      else .error .GroupMalformedElement
    elemLen := 4
    randomScalar := fun t =>
      match t.draw 8 with
      | some (b, t') => some (⟨leNat b % q⟩, t')
      | none => none
    idLt := fun a b => a.val < b.val }

def q31 : Nat := 2147483647
def q16 : Nat := 65537

def toy31 : Suite (Fq q31) (Gq q31) := Suite.ofBase (toyBase q31 7 false "TOY31")
def toy16 : Suite (Fq q16) (Gq q16) := Suite.ofBase (toyBase q16 3 true "TOY16")

end Frost.Ref
