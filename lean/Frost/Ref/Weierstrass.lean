/-
Frost.Ref.Weierstrass — short Weierstrass curves y^2 = x^3 + a x + b over F_p
(P-256 and secp256k1), transcribed from `class Wei` of the validated Python prototype `ref.py`.

* `WPoint` is the canonical affine representation (`inf` or `aff x y` with `x, y < p`), so
  structural equality is group equality.
* `WeiCurve.add` / `neg` / `enc` / `dec` are line-by-line transcriptions of the prototype.
* `WeiCurve.mul` computes the same function as the prototype's affine double-and-add
  (for canonical on-curve inputs) but runs in Jacobian coordinates with a single inversion
  at the end.  `WeiCurve.mulAffine` is the literal prototype loop, kept for cross-checking.
-/
import Frost.Ref.ModArith

namespace Frost.Ref

/-- Curve parameters.  `a` is stored reduced mod `p` (prototype: `s.a = a % p`). -/
structure WeiCurve where
  (p a b n gx gy : Nat)
deriving Repr

/-- Prototype `P256`. -/
def p256 : WeiCurve :=
  let p := 2^256 - 2^224 + 2^192 + 2^96 - 1
  { p := p
    a := p - 3      -- (-3) % p
    b := 0x5ac635d8aa3a93e7b3ebbd55769886bc651d06b0cc53b0f63bce3c3e27d2604b
    n := 0xffffffff00000000ffffffffffffffffbce6faada7179e84f3b9cac2fc632551
    gx := 0x6b17d1f2e12c4247f8bce6e563a440f277037d812deb33a0f4a13945d898c296
    gy := 0x4fe342e2fe1a7f9b8ee7eb4a7c0f9e162bce33576b315ececbb6406837bf51f5 }

/-- Prototype `K1`. -/
def secp256k1 : WeiCurve :=
  { p := 2^256 - 2^32 - 977
    a := 0
    b := 7
    n := 0xFFFFFFFFFFFFFFFFFFFFFFFFFFFFFFFEBAAEDCE6AF48A03BBFD25E8CD0364141
    gx := 0x79BE667EF9DCBBAC55A06295CE870B07029BFCDB2DCE28D959F2815B16F81798
    gy := 0x483ADA7726A3C4655DA4FBFC0E1108A8FD17B448A68554199C47D08FFB10D4B8 }

/-- Canonical affine representation: structural equality = group equality
(for coordinates reduced mod `p`). -/
inductive WPoint where
  | inf
  | aff (x y : Nat)
deriving DecidableEq, Repr

instance : Inhabited WPoint := ⟨.inf⟩

/-- The base point. -/
def WeiCurve.gen (c : WeiCurve) : WPoint := .aff c.gx c.gy

/-- Affine addition, exactly the prototype's `Wei.add` (one inversion per call). -/
def WeiCurve.add (c : WeiCurve) (P Q : WPoint) : WPoint :=
  match P, Q with
  | .inf, Q => Q
  | P, .inf => P
  | .aff x1 y1, .aff x2 y2 =>
    let p := c.p
    if x1 == x2 then
      if (y1 + y2) % p == 0 then .inf
      else
        let l := (3 * x1 * x1 + c.a) * invMod (2 * y1) p % p
        let x3 := subMod (subMod (l * l) x1 p) x2 p
        .aff x3 (subMod (l * subMod x1 x3 p) y1 p)
    else
      let l := subMod y2 y1 p * invMod (subMod x2 x1 p) p % p
      let x3 := subMod (subMod (l * l) x1 p) x2 p
      .aff x3 (subMod (l * subMod x1 x3 p) y1 p)

/-- Prototype `Wei.neg`. -/
def WeiCurve.neg (c : WeiCurve) (P : WPoint) : WPoint :=
  match P with
  | .inf => .inf
  | .aff x y => .aff x (negMod y c.p)

/-! ### Literal prototype scalar multiplication (slow; for cross-checks) -/

/-- Loop of the prototype's `Wei.mul` (right-to-left affine double-and-add). -/
def WeiCurve.mulAffineLoop (c : WeiCurve) : (fuel k : Nat) → (R P : WPoint) → WPoint
  | 0, _, R, _ => R
  | fuel + 1, k, R, P =>
    if k == 0 then R
    else
      let R' := if k % 2 == 1 then c.add R P else R
      mulAffineLoop c fuel (k / 2) R' (c.add P P)

/-- The prototype's `Wei.mul`, literally (`k` reduced mod `n`, affine double-and-add). -/
def WeiCurve.mulAffine (c : WeiCurve) (k : Nat) (P : WPoint) : WPoint :=
  let k := k % c.n
  c.mulAffineLoop (Nat.log2 k + 1) k .inf P

/-! ### Fast scalar multiplication in Jacobian coordinates -/

/-- Jacobian point `(X : Y : Z)` representing affine `(X/Z^2, Y/Z^3)`; `Z = 0` is infinity.
Internal to `WeiCurve.mul`.  INVARIANT: all three coordinates are reduced (`< p`). -/
structure JPoint where
  (x y z : Nat)

/-- Jacobian infinity. -/
def JPoint.inf : JPoint := ⟨1, 1, 0⟩

/-- `(a - b) mod p` for arbitrary `a` and REDUCED `b` (`b ≤ p`); one `%` instead of three.
Only used inside the Jacobian formulas, where every subtrahend is reduced by the invariant. -/
@[inline] def subR (a b p : Nat) : Nat := (a + (p - b)) % p

/-- Jacobian doubling for general `a` (`S = 4XY²`, `M = 3X² + aZ⁴`, `X' = M² - 2S`,
`Y' = M(S - X') - 8Y⁴`, `Z' = 2YZ`).  Maps infinity (and `Y = 0`) to `Z = 0`.
Preserves the invariant "coordinates reduced". -/
def WeiCurve.jdbl (c : WeiCurve) (P : JPoint) : JPoint :=
  let p := c.p
  let yy := P.y * P.y % p
  let s := 4 * (P.x * yy % p) % p
  let xx := P.x * P.x % p
  let m :=
    if c.a == 0 then 3 * xx % p
    else
      let zz := P.z * P.z % p
      (3 * xx + c.a * (zz * zz % p)) % p
  let x3 := (m * m + 2 * (p - s)) % p
  let y3 := (m * subR s x3 p + 8 * (p - yy * yy % p)) % p
  let z3 := 2 * (P.y * P.z % p) % p
  ⟨x3, y3, z3⟩

/-- Mixed addition `P + (x2, y2)` with `P` Jacobian (reduced) and `(x2, y2)` a finite affine
point with `x2, y2 < p`.  Handles `P = inf`, `P = Q` (doubles) and `P = -Q` (infinity).
(`U2 = x2 Z²`, `S2 = y2 Z³`, `H = U2 - X`, `R = S2 - Y`, `X' = R² - H³ - 2XH²`,
`Y' = R(XH² - X') - YH³`, `Z' = ZH`.)  Preserves the invariant "coordinates reduced". -/
def WeiCurve.jaddMixed (c : WeiCurve) (P : JPoint) (x2 y2 : Nat) : JPoint :=
  let p := c.p
  if P.z == 0 then ⟨x2, y2, 1 % p⟩
  else
    let zz := P.z * P.z % p
    let u2 := x2 * zz % p
    let s2 := y2 * (zz * P.z % p) % p
    let h := subR u2 P.x p
    let r := subR s2 P.y p
    if h == 0 then
      if r == 0 then c.jdbl P else JPoint.inf
    else
      let hh := h * h % p
      let nhhh := p - h * hh % p          -- -(H³), in (0, p]
      let v := P.x * hh % p
      let x3 := (r * r + nhhh + 2 * (p - v)) % p
      let y3 := (r * subR v x3 p + P.y * nhhh) % p
      let z3 := P.z * h % p
      ⟨x3, y3, z3⟩

/-- Back to canonical affine form (one inversion). -/
def WeiCurve.jnorm (c : WeiCurve) (P : JPoint) : WPoint :=
  let p := c.p
  if P.z == 0 then .inf
  else
    let zi := invMod P.z p
    let zi2 := zi * zi % p
    .aff (P.x * zi2 % p) (P.y * (zi2 * zi % p) % p)

/-- Left-to-right double-and-add over bits `i-1 .. 0` of `k`; `x, y < p`. -/
def WeiCurve.jmulLoop (c : WeiCurve) (x y k : Nat) : (i : Nat) → JPoint → JPoint
  | 0, R => R
  | i + 1, R =>
    let R2 := c.jdbl R
    jmulLoop c x y k i (if k.testBit i then c.jaddMixed R2 x y else R2)

/-- Scalar multiplication `(k mod n) • P`.  Same function as the prototype's `Wei.mul`
(`WeiCurve.mulAffine`) on canonical on-curve inputs; Jacobian internally, normalised once.
(The affine input is reduced mod `p` on entry, a no-op for canonical points, so that the
internal invariants hold unconditionally.) -/
def WeiCurve.mul (c : WeiCurve) (k : Nat) (P : WPoint) : WPoint :=
  match P with
  | .inf => .inf
  | .aff x y =>
    let k := k % c.n
    if k == 0 then .inf
    else c.jnorm (c.jmulLoop (x % c.p) (y % c.p) k (Nat.log2 k + 1) JPoint.inf)

/-! ### SEC1 compressed encoding (strict) -/

/-- Prototype `Wei.enc`: `none` on infinity (the prototype asserts), else 33 bytes
`(02|03) || x` big-endian. -/
def WeiCurve.enc (_c : WeiCurve) (P : WPoint) : Option (List UInt8) :=
  match P with
  | .inf => none
  | .aff x y => some (UInt8.ofNat (2 + (y &&& 1)) :: natToBE x 32)

/-- Prototype `Wei.dec`: strict SEC1 compressed — length 33, tag 02/03 only, `x < p`,
`x^3 + a x + b` a square (square root via exponent `(p+1)/4`, valid as `p ≡ 3 mod 4`). -/
def WeiCurve.dec (c : WeiCurve) (b : List UInt8) : Option WPoint :=
  match b with
  | [] => none
  | tag :: rest =>
    if b.length != 33 || !(tag == 2 || tag == 3) then none
    else
      let x := beToNat rest
      let p := c.p
      if x >= p then none
      else
        let rhs := (x * x * x + c.a * x + c.b) % p
        let y := powMod rhs ((p + 1) / 4) p
        if y * y % p != rhs then none
        else
          -- prototype: `if (y&1)!=(b[0]&1): y=p-y`  (y = 0 is impossible: the groups have odd order)
          let y := if (y &&& 1) != (tag.toNat &&& 1) then p - y else y
          some (.aff x y)

/-- BIP-340 parity: `inf ↦ true`, `aff x y ↦ y even`. -/
def WeiCurve.evenY (P : WPoint) : Bool :=
  match P with
  | .inf => true
  | .aff _ y => y % 2 == 0

/-- BIP-340 x-only serialisation: 32-byte big-endian `x` (`inf ↦` 32 zero bytes). -/
def WeiCurve.xOnly (P : WPoint) : List UInt8 :=
  match P with
  | .inf => List.replicate 32 0
  | .aff x _ => natToBE x 32

end Frost.Ref
