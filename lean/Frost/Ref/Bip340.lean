/-
  Frost.Ref.Bip340 — the Taproot ciphersuite instance, an independent BIP-340 verifier and the
  BIP-341 output-key computation over the reference secp256k1 arithmetic.
-/
import Frost.Model.Taproot
import Frost.Ref.Suites

namespace Frost.Ref
open Frost

def taggedHash (tag : String) (m : Bytes) : Bytes :=
  let t := sha256 (strBytes tag)
  sha256 (t ++ t ++ m)

def trCtx : String := "FROST-secp256k1-SHA256-TR-v1"

def trParams : TrParams (Fq secp256k1.n) (WE secp256k1) :=
  { evenY := fun e => WeiCurve.evenY e.pt
    xOnly := fun e => WeiCurve.xOnly e.pt
    tapTweakHash := fun m => ⟨beToNat (taggedHash "TapTweak" m) % secp256k1.n⟩ }

def trBase : Base (Fq secp256k1.n) (WE secp256k1) :=
  { weiBase secp256k1 trCtx with
    H2 := fun m => ⟨beToNat (taggedHash "BIP0340/challenge" m) % secp256k1.n⟩ }

def secp256k1TrSuite : Suite (Fq secp256k1.n) (WE secp256k1) := Suite.taproot trBase trParams

/-- BIP-340 `lift_x` -/
def liftX (x : Nat) : Option WPoint :=
  secp256k1.dec ((2 : UInt8) :: natToBE x 32)

/-- **BIP-340 `Verify(pk, m, sig)`**, written from the BIP text: `pk` 32 bytes, `sig` 64 bytes -/
def bip340Verify (pk msg sig : Bytes) : Bool :=
  if pk.length ≠ 32 ∨ sig.length ≠ 64 then false
  else
    match liftX (beToNat pk) with
    | none => false
    | some P =>
      let r := beToNat (sig.take 32)
      let s := beToNat (sig.drop 32)
      if r ≥ secp256k1.p ∨ s ≥ secp256k1.n then false
      else
        let e := beToNat (taggedHash "BIP0340/challenge" (sig.take 32 ++ pk ++ msg)) % secp256k1.n
        let R := secp256k1.add (secp256k1.mul s secp256k1.gen)
          (secp256k1.neg (secp256k1.mul e P))
        match R with
        | .inf => false
        | .aff x y => y % 2 = 0 ∧ x = r

/-- **BIP-341 output key** for internal key `P` (any parity; only `x(P)` is used) and an optional
    merkle root: `Q = lift_x(x(P)) + int(hashTapTweak(x(P) ‖ root))·G`; returns `x(Q)`. -/
def bip341OutputKey (internal : WPoint) (root : Option Bytes) : Option Bytes :=
  match internal with
  | .inf => none
  | .aff x _ =>
    match liftX x with
    | none => none
    | some P =>
      let t := beToNat (taggedHash "TapTweak" (natToBE x 32 ++ root.getD [])) % secp256k1.n
      match secp256k1.add P (secp256k1.mul t secp256k1.gen) with
      | .inf => none
      | .aff qx _ => some (natToBE qx 32)

end Frost.Ref
