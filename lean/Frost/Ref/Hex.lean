/-
Test helpers for the reference hash functions: hex decoding/encoding and a
deterministic test-message generator.  Imports nothing beyond core `Init`.
-/

namespace Frost.Ref

/-- Value of one hexadecimal digit (either case); non-hex characters map to 0. -/
def hexNibble (c : Char) : UInt8 :=
  let n := c.toNat
  if 48 ≤ n ∧ n ≤ 57 then UInt8.ofNat (n - 48)          -- '0'..'9'
  else if 97 ≤ n ∧ n ≤ 102 then UInt8.ofNat (n - 87)    -- 'a'..'f'
  else if 65 ≤ n ∧ n ≤ 70 then UInt8.ofNat (n - 55)     -- 'A'..'F'
  else 0

/-- Decode consecutive pairs of hex digits; a trailing odd digit is dropped. -/
def hexPairs : List Char → List UInt8
  | a :: b :: rest => (hexNibble a * 16 + hexNibble b) :: hexPairs rest
  | _ => []

/-- Decode a hex string (no prefix, no separators) into bytes. -/
def hexToBytes (s : String) : List UInt8 := hexPairs s.toList

/-- Lower-case hex digit of a value `< 16`. -/
def hexChar (n : Nat) : Char :=
  if n < 10 then Char.ofNat (48 + n) else Char.ofNat (87 + n)

/-- Encode bytes as a lower-case hex string. -/
def bytesToHex (bs : List UInt8) : String :=
  String.ofList (bs.flatMap fun b => [hexChar (b.toNat / 16), hexChar (b.toNat % 16)])

/-- The UTF-8 bytes of a string. -/
def strBytes (s : String) : List UInt8 := s.toUTF8.data.toList

/-- Deterministic test message of length `n`: byte `i` is `(i*i + 7*i + 3) mod 251`. -/
def testMsg (n : Nat) : List UInt8 :=
  (List.range n).map fun i => UInt8.ofNat ((i * i + 7 * i + 3) % 251)

#guard hexToBytes "" = []
#guard hexToBytes "00ff10Ab" = [0x00, 0xff, 0x10, 0xab]
#guard bytesToHex [0x00, 0xff, 0x10, 0xab] = "00ff10ab"
#guard hexToBytes (bytesToHex (testMsg 300)) = testMsg 300
#guard strBytes "abc" = [0x61, 0x62, 0x63]
#guard testMsg 4 = [3, 11, 21, 33]

end Frost.Ref
