/-
Frost.Ref.ModArith — modular arithmetic on `Nat` and fixed-length byte <-> `Nat` conversions.

Transcribed from the validated Python prototype (`ref.py`): `inv(a,p) = pow(a,p-2,p)`,
`int.to_bytes(len, 'big'|'little')`, `int.from_bytes(_, 'big'|'little')`.

Imports nothing beyond the implicit `Init`.  All definitions are total and use structural
recursion only (on a fuel argument or on the list).
-/

namespace Frost.Ref

/-! ## Modular helpers (every result is in `[0, p)` for `p > 0`) -/

/-- `(a + b) mod p`. -/
@[inline] def addMod (a b p : Nat) : Nat := (a + b) % p

/-- `(a - b) mod p`, correct for arbitrary (unreduced) `a`, `b`.  Python: `(a-b)%p`. -/
@[inline] def subMod (a b p : Nat) : Nat := (a % p + (p - b % p)) % p

/-- `(-a) mod p`, correct for arbitrary (unreduced) `a`.  Python: `(-a)%p`. -/
@[inline] def negMod (a p : Nat) : Nat := (p - a % p) % p

/-- `(a * b) mod p`. -/
@[inline] def mulMod (a b p : Nat) : Nat := a * b % p

/-- Right-to-left square-and-multiply.  Invariant: result = `acc * b^e mod p`
provided `fuel ≥ bitlength e`.  Structural recursion on `fuel`. -/
def powModFuel (p : Nat) : (fuel b e acc : Nat) → Nat
  | 0, _, _, acc => acc
  | fuel + 1, b, e, acc =>
    let acc' := if e % 2 == 1 then acc * b % p else acc
    if e / 2 == 0 then acc' else powModFuel p fuel (b * b % p) (e / 2) acc'

/-- `b ^ e mod p` (Python `pow(b, e, p)` for `b, e ≥ 0`, `p ≥ 1`). -/
def powMod (b e p : Nat) : Nat :=
  powModFuel p (Nat.log2 e + 1) (b % p) e (1 % p)

/-- Fermat inverse `a^(p-2) mod p` for prime `p` (Python prototype `inv`).  `invMod 0 p = 0`. -/
def invMod (a p : Nat) : Nat := powMod a (p - 2) p

/-! ## Bytes <-> Nat, fixed length -/

/-- `len` little-endian bytes of `n` (silently truncates to `n mod 256^len`;
Python's `n.to_bytes(len,'little')` would raise instead — callers only pass `n < 256^len`). -/
def natToLE : (n len : Nat) → List UInt8
  | _, 0 => []
  | n, len + 1 => UInt8.ofNat (n % 256) :: natToLE (n / 256) len

/-- `len` big-endian bytes of `n` (truncating like `natToLE`).  Python `n.to_bytes(len,'big')`. -/
def natToBE (n len : Nat) : List UInt8 := (natToLE n len).reverse

/-- Python `int.from_bytes(b, 'big')`. -/
def beToNat (b : List UInt8) : Nat := b.foldl (fun acc x => acc * 256 + x.toNat) 0

/-- Python `int.from_bytes(b, 'little')`. -/
def leToNat (b : List UInt8) : Nat := b.foldr (fun x acc => x.toNat + 256 * acc) 0

end Frost.Ref
