import Frost.Driver.Ops
import Frost.Ref.Toy
import Frost.Ref.Suites

open Frost Frost.Driver Frost.Ref

def runLine (line : String) : String :=
  match (line.trimAscii.toString.splitOn " ").filter (· ≠ "") with
  | op :: suite :: rest =>
    let a := parseArgs rest
    match suite with
    | "toy31" => runOp toy31 op a
    | "toy16" => runOp toy16 op a
    | "ed25519" => runOp ed25519Suite op a
    | "ed448" => runOp ed448Suite op a
    | "p256" => runOp p256Suite op a
    | "ristretto255" => runOp ristrettoSuite op a
    | "secp256k1" => runOp secp256k1Suite op a
    | _ => "bad-suite"
  | _ => "bad-line"

partial def loop (h : IO.FS.Stream) (out : IO.FS.Stream) : IO Unit := do
  let line ← h.getLine
  if line.isEmpty then return ()
  out.putStrLn (runLine line)
  loop h out

def main : IO Unit := do
  let stdin ← IO.getStdin
  let stdout ← IO.getStdout
  loop stdin stdout
