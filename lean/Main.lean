import Frost.Driver.Ops
import Frost.Driver.WireOps
import Frost.Ref.Crc32
import Frost.Ref.Toy
import Frost.Ref.Suites
import Frost.Ref.Bip340

open Frost Frost.Driver Frost.Ref

/-- `Header`: version 0, then the big-endian CRC-32 of the ciphersuite ID -/
def header (id : Bytes) : Bytes :=
  let c := (crc32 id).toNat
  [0, UInt8.ofNat (c / 16777216), UInt8.ofNat (c / 65536), UInt8.ofNat (c / 256), UInt8.ofNat c]

def isWireOp (op : String) : Bool := op = "ser" || op = "de" || op = "prim" || op = "resume" || op = "wipe" || op = "debugfields" || op = "json_ser" || op = "rand_new_pkg"

def runLine (line : String) : String :=
  match (line.trimAscii.toString.splitOn " ").filter (· ≠ "") with
  | op :: suite :: rest =>
    let a := parseArgs rest
    if isWireOp op then
      match suite with
      | "toy31" => runWireOp toy31 (header toy31.ID) op a
      | "toy16" => runWireOp toy16 (header toy16.ID) op a
      | "ed25519" => runWireOp ed25519Suite (header ed25519Suite.ID) op a
      | "ed448" => runWireOp ed448Suite (header ed448Suite.ID) op a
      | "p256" => runWireOp p256Suite (header p256Suite.ID) op a
      | "ristretto255" => runWireOp ristrettoSuite (header ristrettoSuite.ID) op a
      | "secp256k1" => runWireOp secp256k1Suite (header secp256k1Suite.ID) op a
      | "secp256k1-tr" => runWireOp secp256k1TrSuite (header secp256k1TrSuite.ID) op a
      | _ => "bad-suite"
    else
    match suite with
    | "toy31" => runOp toy31 op a
    | "toy16" => runOp toy16 op a
    | "ed25519" => runOp ed25519Suite op a
    | "ed448" => runOp ed448Suite op a
    | "p256" => runOp p256Suite op a
    | "ristretto255" => runOp ristrettoSuite op a
    | "secp256k1" => runOp secp256k1Suite op a
    | "secp256k1-tr" =>
      if op = "bip340_verify" then
        match a.get "pk" >>= parseHex, a.get "msg" >>= parseHex, a.get "sig" >>= parseHex with
        | some pk, some msg, some sig => if bip340Verify pk msg sig then "ok" else "err Bip340Invalid culprits="
        | _, _, _ => "bad-op"
      else if op = "bip341_output" then
        match a.get "vk" >>= parseHex, a.get "root" >>= pRoot with
        | some vk, some root =>
          match secp256k1.dec vk with
          | some P => match bip341OutputKey P root with
            | some q => "ok q=" ++ toHex q
            | none => "err Bip341Failed culprits="
          | none => "bad-op"
        | _, _ => "bad-op"
      else runTrOp trBase trParams op a
    | _ => "bad-suite"
  | _ => "bad-line"

partial def loop (h : IO.FS.Stream) (out : IO.FS.Stream) : IO Unit := do
  let line ← h.getLine
  if line.isEmpty then return ()
  out.putStrLn (runLine line)
  loop h out

def main : IO Unit := do
  let stdin ← IO.getStdin
  let stdout ← IO.getStdout
  loop stdin stdout
