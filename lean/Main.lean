import Frost.Driver.Ops
import Frost.Ref.Toy
import Frost.Ref.Suites
import Frost.Ref.Bip340

open Frost Frost.Driver Frost.Ref

def runLine (line : String) : String :=
  match (line.trimAscii.toString.splitOn " ").filter (· ≠ "") with
  | op :: suite :: rest =>
    let a := parseArgs rest
    match suite with
    | "toy31" => runOp toy31 op a
    | "toy16" => runOp toy16 op a
    | "ed25519" => runOp ed25519Suite op a
    | "ed448" => runOp ed448Suite op a
    | "p256" => runOp p256Suite op a
    | "ristretto255" => runOp ristrettoSuite op a
    | "secp256k1" => runOp secp256k1Suite op a
    | "secp256k1-tr" =>
      if op = "bip340_verify" then
        match a.get "pk" >>= parseHex, a.get "msg" >>= parseHex, a.get "sig" >>= parseHex with
        | some pk, some msg, some sig => if bip340Verify pk msg sig then "ok" else "err Bip340Invalid culprits="
        | _, _, _ => "bad-op"
      else if op = "bip341_output" then
        match a.get "vk" >>= parseHex, a.get "root" >>= pRoot with
        | some vk, some root =>
          match secp256k1.dec vk with
          | some P => match bip341OutputKey P root with
            | some q => "ok q=" ++ toHex q
            | none => "err Bip341Failed culprits="
          | none => "bad-op"
        | _, _ => "bad-op"
      else runTrOp trBase trParams op a
    | _ => "bad-suite"
  | _ => "bad-line"

partial def loop (h : IO.FS.Stream) (out : IO.FS.Stream) : IO Unit := do
  let line ← h.getLine
  if line.isEmpty then return ()
  out.putStrLn (runLine line)
  loop h out

def main : IO Unit := do
  let stdin ← IO.getStdin
  let stdout ← IO.getStdout
  loop stdin stdout
